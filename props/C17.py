"""C17 — allocator discipline at the choke points (DESIGN.md section 3, C17)."""
from vlib import Ob, run_all
import C19
import C14


def obligations(tier):
    obs = []
    for nops in ((1,) if tier == "quick" else (1, 2)):  # seq2 takes ~18 min CPU
        loops = {"memcpy#0": 8, "memcpy#1": 50, "_MIR_set_code#0": 3, "_MIR_set_code#1": 3, "_MIR_update_code_arr#0": 3,
                 "code_finish#0": nops + 2, "h_ledger_find#0": 8, "h_ledger_live#0": 8, "h_mem_protect#0": 8, "h_memcpy_hook#0": 8,
                 "h_memcpy_hook#1": 50, "h_mem_map#0": 8, "h_mem_unmap#0": 8, "h_mem_unmap#1": 8, "h_no_page_writable#0": 8}
        obs.append(Ob("code_holders.seq%d" % nops, "C17/code_holders.c", defs=["H_NOPS=%d" % nops], loops=loops, unwind=8,
                      unwindset={"harness.%d" % i: 50 for i in range(8)}, checks="memsafe-noptr", timeout=1500, object_bits=10,
                      sample="every sequence of <= %d operations from {publish(len), publish_by_addr(addr,len), change_code(addr,len), "
                             "update_code_arr(1-2 locations)} with symbolic lengths 0..48, offsets and addresses, then code_finish; checking "
                             "MIR_code_alloc_t (page protection state, mapping ledger), page size 64" % nops))
    names = {0: "publish", 1: "publish_by_addr", 2: "change", 3: "update"}
    seqs = [(0, 2), (0, 3), (0, 0), (0, 1), (1, 0)] + ([(0, 0, 2), (0, 2, 3), (0, 1, 2), (0, 3, 0)] if tier == "thorough" else [])
    # page size 32: one published region (<= 48 bytes) already crosses a page boundary, so change / update of bytes that straddle
    # two pages are reached by two-operation histories (with page size 64 that needs publish ; publish ; change - thorough tier)
    small = [(0, 2), (0, 3)]
    for sq, psz in [(q, 64) for q in seqs] + [(q, 32) for q in small]:
        n = len(sq)
        loops = {"memcpy#0": 8, "memcpy#1": 50, "_MIR_set_code#0": 3, "_MIR_set_code#1": 3, "_MIR_update_code_arr#0": 3,
                 "code_finish#0": n + 2, "h_ledger_find#0": 8, "h_ledger_live#0": 8, "h_mem_protect#0": 8, "h_memcpy_hook#0": 8,
                 "h_memcpy_hook#1": 50, "h_mem_map#0": 8, "h_mem_unmap#0": 8, "h_mem_unmap#1": 8, "h_no_page_writable#0": 8}
        if psz == 32:  # 8 pages
            loops.update({k: 10 for k in ("h_mem_protect#0", "h_memcpy_hook#0", "h_mem_map#0", "h_mem_unmap#0", "h_mem_unmap#1", "h_no_page_writable#0")})
        obs.append(Ob("code_holders." + "+".join(names[k] for k in sq) + (".page32" if psz == 32 else ""), "C17/code_holders.c",
                      defs=["H_NOPS=%d" % n, "H_OPSEQ=" + ",".join(str(k) for k in sq)] + (["H_PSZ=32", "H_PAGES=8"] if psz == 32 else []), loops=loops, unwind=8,
                      unwindset={"harness.%d" % i: 50 for i in range(8)}, checks="memsafe-noptr", timeout=1500, object_bits=10,
                      sample="operation sequence %s with symbolic lengths 0..48, offsets and addresses, then code_finish; page size %d" % (" ; ".join(names[k] for k in sq), psz)))
    # the VARR / HTAB contracts with the ledger allocator are the C19 harnesses (they assert: realloc is told the true old
    # size, no use of a stale block, destroy frees every block exactly once, free_func once per dropped element)
    for ob in C19.obligations(tier):
        if ob.name.startswith(("varr.", "htab.")):
            ob.name = "containers." + ob.name
            obs.append(ob)
    # release of loaded data sections: the C14 section harness ends with the real remove_module / remove_item under the ledger
    # allocator (every section block returned exactly once, nothing that is not a block handed to free); runs of >= 2 items
    # with an unnamed follower, every item kind as follower
    seen = set()
    for ob in C14.obligations(tier):
        if not ob.name.startswith("sections."):
            continue
        parts = ob.name.split(".", 2)[2].split("+")
        followers = [p.split("_")[0].rstrip("0123456789") for p in parts[1:] if not p.startswith("N:")]
        nrem = len([o for o in obs if o.name.startswith("removal.")])
        for f in followers:
            if (f not in seen and tier == "quick") or (tier != "quick" and nrem < 40):
                seen.add(f)
                ob.name = "removal." + ob.name
                obs.append(ob)
                break
    return obs


META = {
    "bounds": {"code holders": "every sequence of <= 1 operations and 5 fixed two-operation sequences (quick); every sequence of <= 2 and 4 fixed three-operation sequences (thorough), lengths 0..48 bytes, page size 64, arena 6 pages",
               "containers": "as C19 (VARR one step from an arbitrary state; HTAB operation sequences)"},
    "assumptions": ["code memory is an integer address range backed by a shadow array written only by the observed memcpy "
                    "(the library writes code memory through memcpy in _MIR_set_code only; symbolic object addresses make the page arithmetic intractable)",
                    "page_size set to 64 directly in machine_code_ctx (the real value comes from sysconf)",
                    "__builtin___clear_cache has no effect in the model",
                    "whole-history statement 'after the finish calls every block has been returned' over ~400 allocation sites is NOT claimed "
                    "(needs MIR_init, beyond the engine): the claim is the contracts at the choke points"],
    "functions_encoded": ["get_last_code_holder", "add_code", "_MIR_publish_code", "_MIR_publish_code_by_addr", "_MIR_change_code",
                          "_MIR_update_code_arr", "_MIR_set_code", "_MIR_get_new_code_addr", "code_finish", "VARR_*", "HTAB_*"],
}


def check(tier, only=None):
    return run_all("C17", tier, obligations(tier), "model_checking", META, only=only)
