"""C16 - code generation leaves the MIR intact and is repeatable: the claimed part is the copy/restore protocol
(_MIR_duplicate_func_insns / _MIR_restore_func_insns / temporary registers), see DESIGN.md section 3, C16."""
from vlib import Ob, run_all

BUILD = ["MIR_NO_INTERP", "MIR_NO_IO", "MIR_NO_SCAN", "H_HTAB_MODEL_CAP=12"]
CELLS = 22   # (sizeof (struct MIR_insn) + 2 * sizeof (MIR_op_t)) / 8


def ob(name, ni, ng, nt, two_cycles, timeout, glob=False):
    w = ni + ng
    loops = {"h_check_restored#0": ni + 1, "h_check_restored#1": CELLS + 1, "h_check_restored#2": 3, "h_check_restored#3": 2 * nt + 1,
             "h_check_copy#0": ni + 1, "h_check_copy#1": 4, "h_check_copy#2": 3,
             "h_generator#0": nt + 1, "h_generator#1": ng + 1,
             "h_build_func#0": ni + 1, "h_build_func#1": ni + 1, "h_build_func#2": ni + 1, "h_build_func#3": 3, "h_build_func#4": ni + 1,
             "redirect_duplicated_labels#0": ni + 1, "redirect_duplicated_labels#1": 4, "redirect_duplicated_labels#2": ni + 1,
             "new_temp_reg#0": 2, "HTAB_size_t_do#0": 13, "HTAB_string_t_do#0": 13, "HTAB_hard_reg_desc_t_do#0": 2,
             "_MIR_restore_func_insns#0": nt + 1, "_MIR_restore_func_insns#1": w + 1, "_MIR_restore_func_insns#2": 3,
             "_MIR_duplicate_func_insns#0": ni + 1, "_MIR_duplicate_func_insns#1": 3, "_MIR_reserved_name_p#0": 2,
             "sprintf#0": 6, "sprintf#1": 3, "sprintf#2": 4, "sprintf#3": 4, "h_is_orig#0": ni + 1,
             "memcmp#0": 5, "strncmp#0": 5, "strcmp#0": 5, "strlen#0": 5,
             "DLIST_MIR_insn_t_el#0": w + 2, "DLIST_MIR_insn_t_el#1": w + 2,
             "memcpy#0": CELLS + 1, "memcpy#1": 2, "memset#0": 2, "memset#1": 2, "bitmap_expand#0": 2}
    defs = BUILD + ["H_NI=%d" % ni, "H_N_EXACT", "H_NG=%d" % ng, "H_NT=%d" % nt] + ([] if two_cycles else ["H_ONE_CYCLE"]) + (["H_GLOBAL"] if glob else [])
    return Ob(name, "C16/duprest.c", defs=defs, loops=loops, unwind=2, object_bits=12, flags=["--slice-formula"], timeout=timeout,
              sample="function of exactly %d insns, each any of {label, jmp, bt, switch over two labels, laddr, add}, 0..2 lref items on "
                     "arbitrary labels; generator: <= %d operations from {delete, insert label/add before/after, rewrite operand, retarget "
                     "label} at arbitrary positions and <= %d temporary registers of arbitrary type; %s%s"
                     % (ni, ng, nt, "then a second cycle with <= 1 operation and <= 1 temporary" if two_cycles else "one cycle",
                        "; the function also declares one global (hard-register) variable" if glob else ""))


REGEN = Ob("regen.already-generated", "C16/regen.c", entry="harness", unwind=3, checks="functional", object_bits=12, timeout=900,
           native_cc=["-no-pie", "-Wl,--unresolved-symbols=ignore-all"],
           sample="MIR_gen twice on a function whose machine code exists (generate_func_code early exit): symbolic thunk / code / call addresses")


def obligations(tier):
    """one obligation per function length (the length is concrete per obligation, the shape of every insn symbolic)"""
    if tier == "quick":
        return [REGEN] + [ob("duprest.n%d.g2.t2.cycle1" % n, n, 2, 2, False, 1800) for n in (1, 2, 3)] + [ob("duprest.n2.g1.t1.cycle2", 2, 1, 1, True, 1800),
                                                                                                          ob("duprest.global.n1.g1.t2.cycle1", 1, 1, 2, False, 1800, glob=True)]
    return [REGEN] + [ob("duprest.n%d.g3.t3.cycle1" % n, n, 3, 3, False, 3600) for n in (1, 2, 3, 4, 5)] \
        + [ob("duprest.n%d.g2.t2.cycle2" % n, n, 2, 2, True, 3600) for n in (2, 3, 4)] \
        + [ob("duprest.global.n%d.g2.t2.cycle%d" % (n, c), n, 2, 2, c == 2, 3600, glob=True) for n, c in ((1, 1), (2, 1), (2, 2))]


META = {
    "bounds": {"insns": "1..5 (thorough) / 1..3 (quick), one obligation per length", "generator operations per cycle": "<= 3 / <= 2", "temporary registers per cycle": "<= 3 / <= 2",
               "cycles": "2 (second cycle with <= 1 operation, <= 1 temporary)", "operands per insn": "<= 3", "lref items": "<= 2",
               "hash table model capacity": 12},
    "assumptions": [
        "claimed part only: the copy/restore protocol; that no generator pass writes through a pointer into original_insns is a whole-generator "
        "frame condition and is NOT proved; the generator is modelled as an arbitrary sequence of list/operand edits on the WORKING list",
        "the already-generated path of generate_func_code (mir-gen.c) is checked by regen.already-generated with _MIR_redirect_thunk stubbed (records its arguments); "
        "the generating path (the whole pipeline) is not encoded",
        "library state (context, function, register tables, string table with the names t1..t8 interned) CONSTRUCTED DIRECTLY as static data; "
        "insns are slot-allocator blocks (typed 8-byte cells, 176 bytes) filled in directly; native replay uses MIR_init and the real API",
        "mir-htab.h replaced by the abstract-map model (justified by C19); constant hash; build flags MIR_NO_INTERP/MIR_NO_IO/MIR_NO_SCAN",
        "sprintf modelled for the formats %s and %d (temporary register names)",
        "label operands and lref labels refer to labels of the same function (MIR.md: lref data of the function)",
    ],
}


def check(tier, only=None):
    return run_all("C16", tier, obligations(tier), "model_checking", dict(META), only=only)
