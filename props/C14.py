"""C14 — loaded data items form contiguous, correctly initialised sections (DESIGN.md section 3, C14)."""
import itertools
import os
import random

from vlib import Ob, run_all

# element type indices of harness h_el_types: i8 u8 i16 u16 i32 u32 i64 u64 f d ld p
TY = ["i8", "u8", "i16", "u16", "i32", "u32", "i64", "u64", "f", "d", "ld", "p"]
# item shapes: (label, kind, p1, p2)   kind: 0 bss(len=p1) 1 data(type=p1, nel=p2) 2 ref 3 lref 4 expr(type=p1)
SHAPES = [("bss0", 0, 0, 0), ("bss1", 0, 1, 0), ("bss3", 0, 3, 0), ("bss8", 0, 8, 0), ("bss9", 0, 9, 0)]
SHAPES += [("data_%sx%d" % (TY[t], n), 1, t, n) for t, n in
           [(0, 1), (1, 3), (2, 1), (3, 3), (4, 1), (5, 2), (6, 1), (7, 2), (8, 1), (8, 3), (9, 1), (10, 1), (10, 2), (11, 1), (4, 0), (10, 0)]]
SHAPES += [("ref", 2, 0, 0), ("lref", 3, 0, 0)]
SHAPES += [("expr_%s" % TY[t], 4, t, 0) for t in range(12)]


def configs(tier, seed):
    rnd = random.Random(seed)
    out = []
    for s in SHAPES:                       # every shape alone
        out.append([s])
    pairs = list(itertools.product(SHAPES, repeat=2))
    rnd.shuffle(pairs)
    out += [list(p) for p in pairs[: (60 if tier == "quick" else 400)]]
    for n, cnt in ((3, 40 if tier == "quick" else 300), (4, 15 if tier == "quick" else 150), (5, 0 if tier == "quick" else 60)):
        for _ in range(cnt):
            out.append([rnd.choice(SHAPES) for _ in range(n)])
    res = []
    for shapes in out:
        n = len(shapes)
        named = [rnd.randrange(2) for _ in range(n)]
        targets = [rnd.randrange(n + 1) for _ in range(n)]
        targets = [5 if t == n else t for t in targets]   # H_NITEMS sentinel = external; fixed up below
        res.append((shapes, named, targets))
    return res


def obligations(tier):
    seed = int(os.environ.get("VERIF_SEED", "0") or 0)
    obs = []
    for idx, (shapes, named, targets) in enumerate(configs(tier, seed)):
        n = len(shapes)
        cfg = []
        for k, (lab, kind, p1, p2) in enumerate(shapes):
            tgt = n if targets[k] >= n else targets[k]
            cfg.append("{%d,%d,%d,%d,%d}" % (kind, p1, p2, named[k], tgt))
        name = "sections.%03d." % idx + "+".join(("N:" if named[k] else "") + shapes[k][0] for k in range(n))
        loops = {"load_bss_data_section#0": n + 2, "load_bss_data_section#1": n + 2,
                 "MIR_link#0": 3, "MIR_link#1": n + 2, "MIR_link#2": 3, "MIR_link#3": n + 2, "MIR_link#4": 3, "MIR_link#5": n + 2,
                 "remove_module#0": n + 2, "h_ledger_live#0": 8, "memset#0": 4, "memset#1": 12, "memmove#0": 52, "memmove#1": 52, "memcpy#0": 4, "memcpy#1": 20, "h_ledger_find#0": 8}
        obs.append(Ob(name, "C14/sections.c", defs=["H_NITEMS=%d" % n, "H_CFG=" + ",".join(cfg)],
                      loops=loops, unwind=4, unwindset={"harness.%d" % i: 52 for i in range(12)}, checks="memsafe-noptr" if any(sh[1] == 2 for sh in shapes) else "memsafe-nopo", timeout=600, object_bits=12,
                      sample="run of items [%s] (N: = named), ref targets %s; payload bytes, bss garbage, 64-bit ref displacements and "
                             "expression values symbolic" % (", ".join(("N:" if named[k] else "") + shapes[k][0] for k in range(n)), targets)))
    # lref VALUES as the code generator writes them (real gen_setup_lrefs / get_label_disp of mir-gen.c)
    obs.append(Ob("lref.gen_values", "C14/lref_gen.c", entry="harness", unwind=4, checks="functional", timeout=600, object_bits=12,
                  native_cc=["-no-pie", "-Wl,--unresolved-symbols=ignore-all"],
                  sample="gen_setup_lrefs on a function with 1-2 lref items over three labels: label code displacements < 2^31, lref disp in "
                         "[-2^40, 2^40], second label present or not, -O0 or -O1..3 label representation, any code address: cell == label[-label2]+disp"))
    return obs


META = {
    "bounds": {"items per run": "1 (every shape), 2-4 sampled from VERIF_SEED (quick: 60+40+15), up to 5 and larger samples in thorough",
               "shapes": "%d item shapes: bss 0/1/3/8/9 bytes, data of all 12 element types with 0-3 elements, ref, lref, expr of all 12 result types" % len(SHAPES),
               "symbolic": "data payload bytes, ref displacement (any 64-bit value), expr value (any 128-bit pattern)"},
    "assumptions": ["state constructed directly (no MIR_init / API calls): module item list, items, modules_to_link",
                    "structure (kinds, sizes, named flags, ref targets) is an enumerated/sampled configuration: symbolic sizes put every byte store at a "
                    "symbolic offset and gave no verdict; the solver decides contents, truncation and address arithmetic for all payload values",
                    "allocator: fixed-capacity slot allocator with ledger (requested size checked against the section size)",
                    "MIR_interp replaced by a stub returning an arbitrary value (expr functions are evaluated by the interpreter: C02)",
                    "lref values: the code generator's gen_setup_lrefs is checked by lref.gen_values; the interpreter's (end of generate_icode) and the lazy-BB "
                    "generator's loops sit inside functions that are not encoded: there only lref placement is checked",
                    "x86-64 type sizes (long double 16)",
                    "forming `ref_item->addr + disp` for an arbitrary 64-bit disp is address arithmetic, not a dereference: in runs containing a ref item CBMC's pointer checks are off (they flag the address formation itself); runs without ref items keep all dereference checks"],
    "functions_encoded": ["load_bss_data_section", "MIR_link (ref/expr initialisation loops)", "_MIR_type_size", "MIR_item_name"],
}


def check(tier, only=None):
    return run_all("C14", tier, obligations(tier), "model_checking", META, only=only)
