"""C13 - imports bind to the definition loaded last (DESIGN.md section 3, C13; MIR.md lines 663-720).

Obligations (all CBMC on the real mir.c, state constructed directly):
  additem.seqN            add_item merging rules: N successive items of one name, every kind symbolic, decision-table oracle
  additem.pin.*           two concrete sequences with reachability witnesses
  pin.<what>              ONE concrete history each (every assertion + reachability witnesses): smoke case, binding to an
                          external, rebinding to a newer export, old binding kept, resolver, both error paths ...
  hist1.<shapes>.sN       one name: the three modules have the given shapes for name y (x unused); EVERY history of N steps
                          over {load M1|M2|M3, load_external y, link, link with resolver}
  hist2.<cfg>.sN          two names: shapes of x and y in M1.M2.M3 = <cfg>; EVERY history of N steps over all 7 step kinds
  full.<cfg>.sN           regression: a configuration in which a function is loaded over exported data / an external of the same name
  redef.func-after-*      regression (fixed in /repo b052695f): the FIRST exported function of a name that is already an external
                          or exported data is accepted; one concrete history each
hist*/full* are explored with `cbmc --paths` (one symbolic-execution path per history); configurations with an exported function
are run once with the redefinition permission off (.p0) and once with it on (.p1).
"""
import itertools
import os
import random

from vlib import Ob, run_all

SHAPE = ["none", "export+data", "export+func", "import", "forward+local func", "export+data section of two items"]   # per (module, name): see harness/C13/link_hist.c
ABBR = ["-", "D", "F", "i", "w", "S"]
NONE, D, F, I, W, S = range(6)
# step codes of the harness
LOAD1, LOAD2, LOAD3, EXT_X, EXT_Y, LINK, LINK_RES = range(7)

# CBMC 6.11 resolves `item->u.data->...` (union member that is not the first) exactly only for items in arrays that are NOT split
# into fields; whole-array objects of 65 elements (the C14 workaround) are slow to assign (profiled: value-set update of every element
# per store), so the field-sensitivity threshold is lowered instead and the data items live in an 8-element array
FS_FLAGS = ["--max-field-sensitivity-array-size", "7"]
FS_DEFS = ["H_ARR=12", "H_ND_MAX=16"]


def cfg_name(c):
    return "".join(ABBR[v] for v in c[0:2]) + "." + "".join(ABBR[v] for v in c[2:4]) + "." + "".join(ABBR[v] for v in c[4:6])


def oa25():
    """Orthogonal array OA(25, 6, 5, 2): 25 rows over (M1.x, M1.y, M2.x, M2.y, M3.x, M3.y); every pair of columns takes all 25
    combinations of the 5 shapes (in particular every pair of shapes of one name in two modules, and of two names in one module)."""
    rows = []
    for i in range(5):
        for j in range(5):
            rows.append((i, j, (i + j) % 5, (i + 2 * j) % 5, (i + 3 * j) % 5, (i + 4 * j) % 5))
    return [(r[0], r[2], r[1], r[3], r[4], r[5]) for r in rows]   # (M1.x, M2.x) = (i, j)


def table_cap(c):
    """Entries the module item table model needs (add_item leaves a tombstone for every export/forward replaced by a function)."""
    return sum({NONE: 0, D: 1, F: 2, I: 1, W: 2, S: 1}[v] for v in c) + 2 + 1


LOOPS = {"harness#0": 4, "h_build_module#0": 3, "h_step_load#0": 3, "h_step_load#1": 3, "h_step_load#2": 3,
         "h_step_link#0": 4, "h_step_link#1": 3, "h_step_link#2": 4, "h_step_link#3": 3, "h_step_link#4": 4,
         "MIR_load_module#0": 8, "load_bss_data_section#0": 3, "load_bss_data_section#1": 3,
         "MIR_link#0": 6, "MIR_link#1": 7, "MIR_link#2": 6, "MIR_link#3": 7, "MIR_link#4": 6, "MIR_link#5": 7,
         "simplify_func#0": 1, "simplify_func#1": 1, "simplify_func#2": 1, "simplify_func#3": 1, "simplify_func#4": 1,
         "remove_unused_and_enumerate_labels#0": 1,
         "strlen#0": 3, "strcmp#0": 3, "memcmp#0": 3, "memcpy#0": 2, "memcpy#1": 3, "memmove#0": 9, "memmove#1": 9}


def common(c, nsteps):
    cap = table_cap(c)
    loops = dict(LOOPS)
    loops.update({"HTAB_MIR_item_t_do#0": cap + 1, "HTAB_string_t_do#0": cap + 1, "HTAB_val_t_clear#0": cap + 1, "harness#1": nsteps + 1})
    defs = ["H_SHAPES=" + ",".join(str(v) for v in c), "H_NSTEPS=%d" % nsteps, "H_HTAB_MODEL_CAP=%d" % cap] + FS_DEFS
    return loops, defs


def hist_ob(name, c, nsteps, ops, exclude, timeout):
    """One obligation per value of the redefinition permission (two for configurations with an exported function, one otherwise:
    the flag is only read when an exported function is loaded)."""
    res = []
    for perm in ((0, 1) if F in c else (0,)):
        loops, defs = common(c, nsteps)
        defs += ["H_NO_WITNESS", "H_OPS=" + ",".join(str(o) for o in ops), "H_NOPS=%d" % len(ops), "H_PERM=%d" % perm]
        desc = "M1(x:%s y:%s) M2(x:%s y:%s) M3(x:%s y:%s)" % tuple(SHAPE[v] for v in c)
        res.append(Ob(name + (".p%d" % perm if F in c else ""), "C13/link_hist.c", defs=defs, loops=loops, unwind=2, paths=True, object_bits=12,
                      timeout=timeout, flags=FS_FLAGS,
                      sample="%s; redefinition permission %s; every history of %d steps over %d step kinds (%d histories)" %
                             (desc, "on" if perm else "off", nsteps, len(ops), len(ops) ** nsteps)))
    return res


def hist1(shapes, nsteps, timeout):
    c = (NONE, shapes[0], NONE, shapes[1], NONE, shapes[2])
    return hist_ob("hist1.%s.s%d" % ("".join(ABBR[v] for v in shapes), nsteps), c, nsteps, [LOAD1, LOAD2, LOAD3, EXT_Y, LINK, LINK_RES], True, timeout)


def hist2(c, nsteps, timeout, kind="hist2", exclude=True):
    return hist_ob("%s.%s.s%d" % (kind, cfg_name(c), nsteps), c, nsteps, range(7), exclude, timeout)


def pin_ob(name, c, perm, steps, wit, what):
    loops, defs = common(c, len(steps))
    defs += ["H_PIN=" + ",".join(str(v) for v in [perm] + list(steps))] + ["H_WIT_" + w if w != "ERROR" else "H_ERROR_PATH_WITNESS" for w in wit]
    return Ob(name, "C13/link_hist.c", defs=defs, loops=loops, unwind=2, object_bits=12, timeout=300, flags=FS_FLAGS,
              sample="concrete history: " + what)


ADDITEM_LOOPS = {"HTAB_MIR_item_t_do#0": 9, "h_in_list#0": 6, "strlen#0": 3, "strcmp#0": 3}


def additem_ob(n, timeout):
    loops = dict(ADDITEM_LOOPS)
    loops.update({"harness#0": n + 1, "harness#1": n + 1})
    return Ob("additem.seq%d" % n, "C13/additem.c", defs=["H_NCALLS=%d" % n, "H_NO_WITNESS"] + FS_DEFS, loops=loops,
              unwind=2, paths=True, object_bits=12, timeout=timeout, flags=FS_FLAGS,
              sample="%d successive add_item calls for one name in one module; the kind of every item symbolic over "
                     "{import, export, forward, proto, data, bss, func} (%d sequences)" % (n, 7 ** n))


def additem_pin(name, kinds, wit, what):
    n = len(kinds)
    loops = dict(ADDITEM_LOOPS)
    loops.update({"harness#0": n + 1, "harness#1": n + 1})
    return Ob(name, "C13/additem.c", defs=["H_NCALLS=%d" % n, "H_KINDS=" + ",".join(str(k) for k in kinds), wit] + FS_DEFS, loops=loops,
              unwind=2, object_bits=12, timeout=300, flags=FS_FLAGS, sample="concrete sequence: " + what)


# single-name shape multisets (modules are interchangeable: the history ranges over all load orders)
MULTISETS = [m for m in itertools.combinations_with_replacement(range(5), 3) if m != (NONE, NONE, NONE)]
# quick: the multisets with an importer and a definition in all three modules (a module that is never loaded behaves as an absent one,
# so these subsume the multisets in which a module is empty)
CORE1 = [(D, D, I), (D, F, I), (F, F, I), (D, I, I), (F, I, I), (S, D, I)]   # (D,I,W), (F,I,W) and all others: thorough (quick budget about 60 CPU-minutes)
FOUR = [(D, NONE, I, NONE, F, I), (F, I, I, D, D, F)]   # hand-picked two-name configurations


def obligations(tier):
    seed = int(os.environ.get("VERIF_SEED", "0") or 0)
    rnd = random.Random(seed)
    quick = tier == "quick"
    obs = []
    # ---- add_item merging rules
    obs.append(additem_ob(3 if quick else 4, 900 if quick else 3000))
    obs.append(additem_pin("additem.pin.merge", [1, 4, 2, 1], "H_WIT_MERGE", "export x; data x; forward x; export x (definition takes the export's place and is "
                           "marked exported, forward chained to it, second export merged)"))
    obs.append(additem_pin("additem.pin.error", [6, 0], "H_ERROR_PATH_WITNESS", "func x; import x -> MIR_import_export_error"))
    # ---- concrete histories: reachability witnesses (each also checks every assertion on its history)
    obs += [
        pin_ob("pin.smoke", (D, 0, I, 0, 0, 0), 0, [LOAD1, LOAD2, LINK], ["END"], "load M1 (exports data x); load M2 (imports x); link"),
        pin_ob("pin.section-export", (S, 0, I, 0, 0, 0), 0, [LOAD1, LOAD2, LINK], ["END"],
               "load M1 (exports x, a data section of two items); load M2 (imports x); link -> the address of the section start"),
        pin_ob("pin.external", (0, 0, I, 0, 0, 0), 0, [EXT_X, LOAD2, LINK], ["EXT", "END"], "load_external x; load M2 (imports x); link"),
        pin_ob("pin.newer-export", (D, 0, I, 0, D, 0), 0, [LOAD1, LOAD3, LOAD2, LINK], ["NEWER", "END"],
               "load M1 (data x); load M3 (data x); load M2 (imports x); link -> M3's x"),
        pin_ob("pin.export-over-external", (F, 0, I, 0, 0, 0), 1, [EXT_X, LOAD1, LOAD2, LINK], ["NEWER", "END"],
               "permission on; load_external x; load M1 (func x); load M2 (imports x); link -> M1's x"),
        pin_ob("pin.func-redefined", (F, 0, I, 0, F, 0), 1, [LOAD1, LOAD3, LOAD2, LINK], ["NEWER", "REDEF", "END"],
               "permission on; load M1 (func x); load M3 (func x); load M2 (imports x); link -> M3's x"),
        pin_ob("pin.old-binding-kept", (0, D, 0, I, 0, 0), 0, [LOAD2, LINK_RES, LOAD1, LINK], ["KEPT", "RESOLVER", "END"],
               "load M2 (imports y); link (resolver defines y); load M1 (exports data y); link: M2 keeps the resolver's address"),
        pin_ob("pin.relink-newer", (0, D, 0, I, 0, 0), 0, [EXT_Y, LOAD2, LINK, LOAD1, LOAD2, LINK], ["NEWER", "EXT", "END"],
               "load_external y; load M2 (imports y); link; load M1 (data y); load M2 again; link -> M2 rebound to M1's y"),
        pin_ob("pin.error-undefined-import", (0, 0, I, 0, 0, 0), 0, [LOAD2, LINK_RES], ["ERROR"],
               "load M2 (imports x); link with a resolver that does not know x -> MIR_undeclared_op_ref_error"),
        pin_ob("pin.error-func-redefinition", (F, 0, 0, 0, F, 0), 0, [LOAD1, LOAD3], ["ERROR"],
               "permission off; load M1 (func x); load M3 (func x) -> MIR_repeated_decl_error"),
        pin_ob("pin.forward-local", (W, I, F, 0, 0, 0), 0, [LOAD2, LOAD1, EXT_Y, LINK], ["EXT", "END"],
               "M1 has a forward-declared LOCAL func x and imports y; M2 exports func x: M1's forward resolves to its own x"),
    ]
    # ---- regression (was a defect, fixed in /repo b052695f): first exported function after an external / data of the same name
    obs += [
        pin_ob("redef.func-after-external", (F, 0, 0, 0, 0, 0), 0, [EXT_X, LOAD1], ["END"],
               "permission off; load_external x; load M1 (exports func x): the FIRST exported function x must be accepted"),
        pin_ob("redef.func-after-external-rebind", (F, 0, I, 0, 0, 0), 0, [EXT_X, LOAD1, LOAD2, LINK], ["NEWER", "END"],
               "permission off; load_external x; load M1 (exports func x); load M2 (imports x); link -> bound to M1's function, not the external"),
        pin_ob("redef.func-after-data", (F, 0, D, 0, 0, 0), 0, [LOAD2, LOAD1], ["END"],
               "permission off; load M2 (exports data x); load M1 (exports func x): the FIRST exported function x must be accepted"),
    ]
    # ---- the property over all histories
    oa = oa25()
    if quick:
        for m in CORE1:
            obs += (hist1(m, 4, 1800))
        for c in oa:
            obs += (hist2(c, 3, 1200))
        obs += (hist2((F, 0, I, 0, D, 0), 3, 1200, kind="full", exclude=False))
    else:
        for m in MULTISETS:
            obs += (hist1(m, 4, 3600))
        obs += (hist1(CORE1[0], 5, 7200))
        extra = set()
        while len(extra) < 6:
            c = tuple(rnd.randrange(5) for _ in range(6))
            if c not in oa and c not in FOUR:
                extra.add(c)
        for k, c in enumerate(oa):   # 4 steps cost 4-7 CPU minutes per obligation: every third row of the array, the rest at 3 steps
            obs += (hist2(c, 4 if k % 3 == 0 else 3, 7200))
        for c in FOUR:
            obs += (hist2(c, 4, 7200))
        for c in sorted(extra):
            obs += (hist2(c, 3, 3600))
        obs += (hist2((F, 0, I, 0, D, 0), 4, 7200, kind="full", exclude=False))
    return obs


META = {
    "bounds": {
        "modules": "3 static modules M1..M3, names x and y",
        "shapes": "per module and name one of {nothing | data n + `export n` | `export n` + empty func n | `import n` | `forward n` + local empty func n}. "
                  "Module shapes are an ENUMERATED configuration (one obligation each). hist1 (one name): all 34 non-empty multisets of 3 shapes (thorough), "
                  "5 with importer(s) and exported definitions in all three modules (quick). hist2 (two names): the 25 rows of the orthogonal array OA(25,6,5,2) - every pair of (module,name) positions "
                  "takes all 25 shape pairs - plus, in thorough, 2 hand-picked (and 6 drawn from VERIF_SEED at 3 steps)",
        "history": "EVERY sequence of exactly N steps. hist1: N = 4 (5 for one configuration in thorough), step kinds load M1|M2|M3, load_external y (a fresh "
                   "address each time), link with resolver NULL | a resolver that knows only y (6 kinds; the code does not distinguish names, so the "
                   "one-name runs use y, the name the resolver knows). hist2: N = 3 (quick; thorough: 4 for every third row of the array and the hand-picked ones, 3 for the rest), all 7 kinds (also load_external x). "
                   "All checks are made when a step completes, so N-step histories cover the shorter ones. Redefinition permission (set once before the history): "
                   "both values, one obligation each (.p0/.p1), in every configuration with an exported function (it is only read when one is loaded).",
        "add_item": "every sequence of 3 (quick) / 4 (thorough) items of one name in one module, kinds over {import, export, forward, proto, data, bss, func}",
        "exploration": "`cbmc --paths lifo`: one symbolic-execution path per history. Merging the alternatives of a step (plain BMC) makes every item pointer "
                       "symbolic: no verdict for 2 steps in 170 s. pin.* / redef.* / additem.pin.* are single concrete histories with reachability witnesses",
    },
    "assumptions": [
        "state constructed directly (no MIR_init, no MIR_new_module/MIR_new_func: they do not get through symbolic execution): static context, "
        "static modules whose item lists are built by the REAL add_item from hand-made item objects; functions have EMPTY instruction lists "
        "(simplify_func runs on them; process_inlines is never reached)",
        "mir-htab.h replaced by the abstract-map model (harness/C13/htab_model_bounded.h = common h_htab_model.h with the scans limited to the occupied "
        "prefix; justified by C19), mir-hash.h by a constant hash; MIR_malloc = CBMC malloc at the call site, MIR_free a no-op (CBMC's free() adds a nondet "
        "flag per call; blocks are never reused here; allocation discipline is C17's); the native replay uses the real table, hash, string table and allocator",
        "the strings x and y are pre-interned in the string table (static initialiser mirroring get_ctx_str); MIR_load_external is called with OTHER "
        "char arrays of the same contents, so the real get_ctx_str/string_store lookup runs",
        "_MIR_get_thunk/_MIR_redirect_thunk (machine code emitters of mir-x86_64.c) are replaced at their two call sites in MIR_load_module by a bump "
        "allocator of distinct thunk objects that records the redirection target",
        "set_interface is a harness function that only counts calls (a non-NULL interface is what makes MIR_link drain its queue; with NULL the queue "
        "is kept and the same modules are linked again by the next MIR_link - not covered); which BODY runs after binding (thunk redirection by "
        "the interpreter/generator interfaces, direct calls in generated code) is C01/C03's subject",
        "data sections: one named 8-byte data item per exported data definition; contents/contiguity are C14's subject",
        "reading of MIR.md 680-683 ('If there is already an exported item with the same name, it will be not visible for linking anymore'): a later "
        "exported definition or external registration of a name REPLACES the earlier one for all later link steps, silently for data; modules linked "
        "before keep the address they were bound to (their ref_def points to the shared environment entry, which is updated in place). For functions "
        "MIR_load_module additionally rejects the load with MIR_repeated_decl_error when the name is already defined by an exported MIR FUNCTION and "
        "redefinition permission is off (a function loaded over an external address or exported data of the name is the first exported function: accepted). "
        "Loading the same module again counts as loading its definitions again",
        "MIR_change_module_ctx, expr/ref/lref data, import of a name defined in the same module (rejected by add_item: additem.*) are out of scope here",
    ],
    "functions_encoded": ["MIR_load_module", "load_bss_data_section", "setup_global", "new_export_import_forward", "create_item", "get_ctx_str",
                          "string_store", "string_find", "MIR_load_external", "item_tab_find", "item_tab_insert", "item_tab_remove", "item_eq",
                          "MIR_item_name", "add_item", "MIR_link", "simplify_module_init", "simplify_func", "vn_empty", "make_one_ret",
                          "remove_unused_and_enumerate_labels", "finish_func_interpretation", "MIR_set_func_redef_permission", "_MIR_type_size"],
}


def check(tier, only=None):
    return run_all("C13", tier, obligations(tier), "model_checking", META, only=only)
