"""C10 - textual MIR round trip, fragments (DESIGN.md section 3, C10).

1. WRITER: the real MIR_output_item / output_func_proto / output_vars / MIR_output_insn / MIR_output_op / MIR_output_str /
   _MIR_output_data_item_els on one directly constructed minimal item per kind, symbolic scalar payloads, pointer and bounds
   checks on: returns normally, no invalid dereference, prints exactly the lines of its own item kind, ends with a newline.
2. STRING ESCAPES: real MIR_output_str -> harness buffer -> real scan_string (get_string_char/unget_string_char): all byte
   strings of length <= 2 (quick) / 3 (thorough).
3. OPERAND SYNTAX: real MIR_output_op on a symbolic memory operand -> text -> reference reader written from MIR.md's operand
   syntax (ref/mirtext_ref.h): the text is a memory operand and denotes the operand printed."""
from vlib import Ob, run_all, MEMSAFE

WDEFS = ["MIR_NO_IO=1", "MIR_NO_INTERP", "MIR_NO_SCAN=1"]
SDEFS = ["MIR_NO_IO=1", "MIR_NO_INTERP"]

# fprintf stub: format loop (longest format of the output code is 41 characters), %s loop (names <= 7 characters)
WLOOPS = {"h_fprintf#0": 48, "h_fprintf#1": 4, "h_fprintf#2": 8, "h_sprintf#0": 8,
          "MIR_output_str#0": 4, "memcpy#0": 3, "memcpy#1": 12, "memcmp#0": 9, "memset#0": 8, "memset#1": 40,
          "strlen#0": 9, "strcmp#0": 6, "strncmp#0": 6,
          "HTAB_size_t_do#0": 13, "HTAB_string_t_do#0": 13, "h_setup#7": 7,
          "output_func_proto#0": 4, "output_func_proto#1": 5, "output_vars#0": 4, "MIR_output_item#0": 5,
          "MIR_output_insn#0": 3, "_MIR_output_data_item_els#0": 4, "harness#0": 6, "harness#1": 4}
# MIR_output_op -> output_label -> MIR_output_op: recursion depth 2 (a label's operand is its number)
WREC = {"MIR_output_op": 2, "output_label": 2}

KINDS = {"import": 1, "export": 2, "forward": 3, "proto": 4, "bss": 7, "ref": 8, "lref": 9}
TYPES = ["i8", "u8", "i16", "u16", "i32", "u32", "i64", "u64", "f", "d", "ld", "p"]
FORMS = ["reg", "int", "uint", "float", "double", "ldouble", "mem", "mem_alias", "ref", "str", "label"]


# cbmc 6.11's own function-pointer removal resolves `(op.mode == MIR_OP_MEM ? output_reg : output_var) (...)` to unrelated functions;
# goto-instrument --restrict-function-pointer replaces the two calls by a case split over the two real targets (and asserts it)
RFP = ["MIR_output_op.function_pointer_call.%d/output_reg,output_var" % k for k in (1, 2)]


def wob(name, defs, sample, timeout=900, **kw):
    return Ob("out." + name, "C10/out.c", defs=WDEFS + defs, loops=WLOOPS, unwindset=WREC, unwind=3, checks="memsafe",
              object_bits=12, timeout=timeout, sample=sample, **kw)


def obligations(tier):
    obs = []
    thorough = tier != "quick"
    for name, k in KINDS.items():
        for named in ([1, 0] if thorough and name in ("bss", "ref", "lref") else [1]):
            obs.append(wob(name + ("" if named else ".anon"), ["KIND=%d" % k, "H_NAMED=%d" % named],
                           "MIR_output_item on a %s item%s; symbolic: lengths, displacements, label numbers, vararg flag, "
                           "blk/rblk sizes" % (name, "" if named else " without a name")))
    for t, tn in enumerate(TYPES):
        if not thorough and tn not in ("i8", "u8", "i64", "f", "ld", "p"):
            continue
        obs.append(wob("data." + tn, ["KIND=6", "ELT=%d" % t], "MIR_output_item on a named data item of 2 symbolic %s elements "
                       "(u8: incl. the `# \"string\"` comment path through MIR_output_str)" % tn))
    # func: title with i64/blk/rblk args and two results, locals, label, ONE insn of the given operand form, ret
    for n, fn in enumerate(FORMS):
        if not thorough and fn not in ("reg", "int", "ldouble", "mem", "mem_alias", "ref", "str", "label"):
            continue
        memkw = {"restrict_fp": RFP} if fn.startswith("mem") else {}
        obs.append(wob("func." + fn, ["KIND=5", "FORMS=%d" % (1 << n)] + (["H_MEM_REGS=1"] if fn.startswith("mem") else []),
                       "MIR_output_item on func f (results i64,d; args a:i64, b:blk1:size, c:rblk:size; locals r1,r2), a label, "
                       "one insn with a %s operand (symbolic payload; mem: disp/scale any, base/index each absent or one of 5 registers, "
                       "alias/nonalias none|al|nal), ret" % fn, timeout=1500, **memkw))
    if thorough:
        for t, tn in enumerate(TYPES):
            if tn != "u16":
                obs.append(wob("func.mem.%s" % tn, ["KIND=5", "FORMS=%d" % (1 << 6), "H_MTYPE=%d" % t, "H_MEM_REGS=1"],
                               "as out.func.mem with memory type %s" % tn, timeout=1500, restrict_fp=RFP))
    # expr item (suspected defect F3): pointer checks are replaced by the harness's own assertions - with the standard checks on,
    # cbmc 6.11 aborts in fatal_assertions.cpp once a dereference check fails; the native replay runs under ASan anyway
    eloops = dict(WLOOPS)
    eloops.update({"h_fprintf#2": 4, "h_fprintf#0": 30})
    for named in ([1, 0] if thorough else [1]):
        obs.append(Ob("out.expr" + ("" if named else ".anon"), "C10/out.c", defs=WDEFS + ["KIND=10", "H_NAMED=%d" % named], loops=eloops,
                      unwindset=WREC, unwind=1, checks="memsafe", object_bits=12, timeout=900,
                      sample="MIR_output_item on an expr item referring to func f"))
    # fragment 3: memory operand text against the reference reader (ref/mirtext_ref.h); the indirect calls
    # `(op.mode == MIR_OP_MEM ? output_reg : output_var) (...)` get their two targets by goto-instrument --restrict-function-pointer
    mloops = dict(WLOOPS)
    mloops.update({"rt_blanks#0": 5, "rt_name#0": 8, "rt_int#0": 21, "rt_streq#0": 9, "h_fprintf#0": 8, "h_fprintf#1": 4, "h_fprintf#2": 6})
    for t, tn in enumerate(TYPES):
        if not thorough and tn not in ("i64", "u8"):
            continue
        obs.append(Ob("op.mem." + tn, "C10/memop.c", defs=WDEFS + ["H_MTYPE=%d" % t], loops=mloops, unwindset=WREC, unwind=3, checks="memsafe",
                      object_bits=12, timeout=1500,
                      restrict_fp=RFP,
                      sample="MIR_output_op on a %s memory operand: base and index each absent or one of 5 registers, disp and scale symbolic, "
                             "alias/nonalias in {none, al, nal}; text read back by the reference reader of MIR.md's operand syntax" % tn))
    ploops = dict(WLOOPS)
    ploops.update({"harness#0": 8, "harness#1": 3, "harness#2": 17, "h_fprintf#0": 12, "h_fprintf#1": 8, "h_fprintf#2": 8})
    obs.append(Ob("hdr.proto", "C10/proto.c", defs=WDEFS, loops=ploops, unwindset=WREC, unwind=4, checks="memsafe", object_bits=12, timeout=900,
                  sample="MIR_output_item on a prototype with 0..2 results, 0..3 arguments (i64, blk1, rblk) and the vararg flag symbolic; the header line "
                         "read back by a reference reader of MIR.md's proto syntax"))
    sloops = {"h_setup#7": 7, "scan_string#0": 17, "scan_string#1": 3, "MIR_output_str#0": 4, "h_fprintf#0": 6, "h_fprintf#1": 3,
              "h_fprintf#2": 2, "harness#0": 4, "harness#1": 4, "memcpy#0": 3, "memcpy#1": 5, "memcmp#0": 5, "memset#0": 5,
              "memset#1": 30, "HTAB_string_t_do#0": 13, "VARR_charpush_arr#0": 2, "strlen#0": 2}
    ml = 3 if thorough else 2
    for nl in ((2, 3) if not thorough else (3,)):   # length 3 (a non-printable byte followed by a digit, then NUL) is cheap: also in quick
        obs.append(Ob("str.nulterm.len%d" % nl, "C10/str.c", defs=SDEFS + ["H_MAXLEN=%d" % nl, "H_NULTERM=1"], loops=sloops, unwind=4,
                      checks="functional", object_bits=12, timeout=900,
                      sample="every byte string of length <= %d that is empty or ends in NUL: MIR_output_str -> scan_string gives the "
                             "same bytes and length, consuming exactly the text" % nl))
    obs.append(Ob("str.any.len%d" % ml, "C10/str.c", defs=SDEFS + ["H_MAXLEN=%d" % ml, "H_NULTERM=0"], loops=sloops, unwind=4,
                  checks="functional", object_bits=12, timeout=900,
                  sample="every byte string of length <= %d: MIR_output_str -> scan_string gives the same bytes and length" % ml))
    return obs


META = {
    "bounds": {
        "claim": "fragments: (1) the writer terminates normally and memory-safely on one minimal item of every kind and prints only "
                 "that kind's lines; (2) string escapes round trip through the real scanner's string reading",
        "items": "one item per kind; names <= 7 characters; func f with 2 results, 3 args (i64, blk1, rblk), 2 locals, no globals; "
                 "insns have ONE operand (ops[0]): addressing ops[i>0] of the struct MIR_insn flexible tail is not exercised; "
                 "data items have 2 elements; memory operand type concrete per obligation (quick: u16; thorough: all 12)",
        "memory operands": "base and index registers each absent or one of the function's 5 registers; mir.c prints them through "
                           "`(op.mode == MIR_OP_MEM ? output_reg : output_var) (...)`: the two call sites are given their two real targets "
                           "with goto-instrument --restrict-function-pointer (which also asserts that the pointer is one of them), because "
                           "cbmc 6.11's own function-pointer removal resolves them to unrelated functions; op.mem.*: the printed text is "
                           "read back by the reference reader ref/mirtext_ref.h (MIR.md operand syntax) and compared field by field",
        "symbolic": "int/uint/float/double/ldouble immediates, label numbers, disp, scale 0..255, "
                    "alias/nonalias in {none, al, nal}, register number, bss length, ref/lref disp, data elements, blk sizes, "
                    "2 string bytes of the str operand, proto vararg flag",
        "strings": "all byte strings of length <= 2 (quick) / <= 3 (thorough), every byte value at every position",
        "fprintf": "CBMC mode: harness stub - literal text, %s, %c, %03o exact; integer and floating conversions consume their "
                   "argument and print one placeholder character; REPLAY: real fprintf into open_memstream",
        "recursion": "MIR_output_op -> output_label -> MIR_output_op unwound to depth 2 (unwinding assertion on)",
        "out of the claim": "decimal and floating formatting/parsing (%d %u %ld %lu %.*e %.*Le, strtod, strtoul are libc: CBMC has no "
                            "model), so integer and floating-point immediates surviving the text round trip is outside; "
                            "names/labels re-scanned by the REAL scanner's operand branch (not attempted: needs MIR_scan_string with "
                            "module/func creation; memory-operand syntax is checked against a reference reader instead); whole-module text identity and execution identity after re-scan",
    },
    "assumptions": [
        "state constructed directly as static C data (no MIR_init): context, string/alias tables, function f with 5 registers; "
        "see harness/C10/c10.h",
        "LC_CTYPE is the C locale: isprint/isdigit/isxdigit modelled as ASCII ranges in CBMC mode (MIR never calls setlocale)",
        "mir-htab.h replaced by the abstract-map model in CBMC mode (C19); constant hash; real headers in the native replay",
        "allocations (only interned strings such as \"blk1\" and scanned strings) are fixed 16-byte blocks; container growth asserted unreachable",
        "MIR_item objects live in an array of 65 items (CBMC 6.11 loses item->u.<member>->field on field-sensitive objects)",
    ],
}


def check(tier, only=None):
    return run_all("C10", tier, obligations(tier), "model_checking", META, only=only)
