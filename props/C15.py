"""C15 - ill-formed IR is rejected with a specific error code, well-formed IR is accepted (DESIGN.md section 3, C15).

One obligation per opcode of /repo/mir.c's insn_descs (parsed at run time, so new opcodes appear automatically and
fail with "opcode not covered by the documentation-derived model" until ref/mir_modes_ref.h is extended), plus
variants for ret (function result types), calls (prototypes), overflow branches (preceding insns), va_start
(vararg flag) and small obligations for register declaration errors."""
import os
import re

from vlib import Ob, run_all, REPO

# Findings 1-5 (addr operand, jcall modes, laddr output, proto/block callee) were repaired in /repo by the fix: commits d9fc5f08,
# 15c0ce9b, 789ebb63, ea7651df.  With FIXED_IN_REPO the oracle's verdict on those forms is enforced by the per-opcode obligations
# (no exclusion) and the former finding.* obligations are regression obligations regress.* that must hold.  Set it to False to check
# a tree without these commits (the forms are then excluded again and expected to be violated as finding.*).
FIXED_IN_REPO = True
BUILD = ["MIR_NO_INTERP", "MIR_NO_IO", "MIR_NO_SCAN", "H_HTAB_MODEL_CAP=6"] + (["H_FIXED_IN_REPO"] if FIXED_IN_REPO else [])
MAXN = 6


def opcodes():
    """[(NAME, arity)] from insn_descs of the working tree (arity is used for loop bounds and the range of
    operand counts only - never by the oracle)."""
    src = open(os.path.join(REPO, "mir.c")).read()
    m = re.search(r"static const struct insn_desc insn_descs\[\] = \{(.*?)\n\};", src, re.S)
    res = []
    for d in re.finditer(r"\{\s*MIR_(\w+),\s*\"[^\"]*\",\s*\{([^}]*)\}\s*\}", m.group(1), re.S):
        modes = [x.strip() for x in d.group(2).split(",") if x.strip()]
        res.append((d.group(1), modes.index("MIR_OP_BOUND")))
    return res


CALLS = ("CALL", "INLINE", "JCALL")
BO = ("BO", "BNO", "UBO", "UBNO")
INTERNAL = ("USE", "PHI", "UNSPEC")
PROTOS = {0: ("i64(i64,d,blk:8)", 6, 6), 1: ("(i64,...)", 2, 6), 2: ("f,ld()", 4, 4), 3: ("(rblk:8,i32)", 4, 4)}
FRES = {0: ("()", 0), 1: ("(i64)", 1), 2: ("(f,d)", 2), 3: ("(u8,ld)", 2)}


def loops(maxops, ninsns, nres, prevwalk):
    n1 = maxops + 1
    return {"MIR_finish_func#0": ninsns + 1, "MIR_finish_func#1": prevwalk, "MIR_finish_func#2": n1,
            "MIR_finish_func#3": nres + 1, "MIR_new_insn_arr#0": n1, "MIR_new_insn_arr#1": n1,
            "h15_run#0": MAXN + 1, "h15_state#0": 11, "h15_state#1": 7, "ref_expect#0": MAXN + 1, "ref_expect#1": MAXN + 1,
            "ref_expect#2": MAXN + 1, "ref_expect#3": MAXN + 1, "ref_insn_spec#0": 6, "HTAB_size_t_do#0": 7,
            "strlen#0": 4, "strcmp#0": 4, "h15_known_finding#0": MAXN + 1}


def insn_ob(tier, name, code, nmin, nmax, defs=(), ninsns=2, nres=0, prevwalk=2, accept=True, maxops=None, what="", timeout=None):
    full = tier == "thorough"
    d = BUILD + ["H_OPCODE=MIR_" + code, "H_NMIN=%d" % nmin, "H_NMAX=%d" % nmax, "H_KINDSET=%d" % (1 if full else 0)] + list(defs)
    if accept:
        d.append("H_W_ACCEPT")
    if nmax >= 1 or not accept:
        d.append("H_W_REJECT")
    kinds = ("16 kinds: i64/f/d/ld/undeclared reg, int/uint/float/double/ldouble imm, mem, label, ref proto/import/func, str"
             if full else "9 kinds: i64/f/d reg, int/double imm, mem, label, ref proto/import")
    return Ob(name, "C15/insn.c", defs=d, loops=loops(maxops if maxops is not None else nmax, ninsns, nres, prevwalk), unwind=3,
              object_bits=12, flags=["--slice-formula"], timeout=timeout or (1800 if full else 1200),
              sample="%s with %d..%d operands, every position any of %s; memory: any MIR_type_t value (incl. block types, undef), "
                     "base/index from {none, i64 reg, f reg, undeclared}, disp from {0, 8, -8}%s" % (code.lower(), nmin, nmax, kinds, what))


def obligations(tier):
    full = tier == "thorough"
    obs = []
    # concrete smoke obligations (the state constructed directly is usable at all)
    obs.append(Ob("smoke.add.accept", "C15/insn.c", defs=BUILD + ["H_OPCODE=MIR_ADD", "H_NMIN=3", "H_NMAX=3", "H_W_ACCEPT",
                                                                  "H_FIXED_KINDS={HK_REG_I,HK_REG_I,HK_REG_I}"],
                  loops=loops(3, 2, 0, 2), unwind=3, object_bits=12, flags=["--slice-formula"], timeout=600, sample="add a, a, a (all i64): accepted"))
    obs.append(Ob("smoke.add.reject", "C15/insn.c", defs=BUILD + ["H_OPCODE=MIR_ADD", "H_NMIN=3", "H_NMAX=3", "H_W_REJECT",
                                                                  "H_FIXED_KINDS={HK_REG_I,HK_REG_I,HK_REG_F}"],
                  loops=loops(3, 2, 0, 2), unwind=3, object_bits=12, flags=["--slice-formula"], timeout=600,
                  sample="add a, a, f (f is a float register): MIR_op_mode_error"))
    for code, ar in opcodes():
        if code in CALLS:
            for pv, (ptxt, lo, hi) in PROTOS.items():
                if not full and code != "CALL" and pv in (1, 3):
                    continue   # quick tier budget: the vararg and rblk prototypes run for call only (inline/jcall share its code path); thorough runs all
                nmin, nmax = (0, MAXN) if full else (lo, min(hi, lo + 1))
                # jcall with 6 operands is part of a known finding (out-of-bounds read of op_modes[5]): no accept path left for proto0
                obs.append(insn_ob(tier, "insn.%s.proto%d" % (code.lower(), pv), code, nmin, nmax, ["H_PROTO=%d" % pv],
                                   accept=FIXED_IN_REPO or not (code == "JCALL" and pv == 0), what="; prototype p: " + ptxt, timeout=3600 if full else 1800))
        elif code == "RET":
            for fv, (ftxt, nres) in FRES.items():
                if not full and fv == 3:
                    continue   # quick tier budget: result types (u8,ld) only in thorough; (f,d) covers the two-result case in quick
                nmin, nmax = (0, 4) if full else (max(0, nres - 1), nres + 1)
                obs.append(insn_ob(tier, "insn.ret.res%d" % fv, code, nmin, nmax, ["H_FRES=%d" % fv], nres=nres,
                                   what="; function result types " + ftxt))
        elif code == "JRET":
            for fv in (0, 1):
                nmin, nmax = (0, MAXN) if full else (ar, ar)
                obs.append(insn_ob(tier, "insn.jret.res%d" % fv, code, nmin, nmax, ["H_FRES=%d" % fv], nres=FRES[fv][1], maxops=ar,
                                   accept=fv == 0, what="; function result types " + FRES[fv][0]))   # jret in a function with results: never accepted
        elif code == "SWITCH":
            nmin, nmax = (0, 5) if full else (2, 3)
            obs.append(insn_ob(tier, "insn.switch", code, nmin, nmax))
        elif code in BO:
            # H_PREV_GROUP=2 (a real `mov b, a|0` between the overflow insn and the branch) exists in the harness but is NOT run: with all
            # three insns on the heap CBMC needs > 29 GB; with a placeholder overflow insn it answers in 14 s CPU but reads
            # prev_insn->ops[1].mode through a pointer it loaded from heap cells imprecisely - counterexamples that do not replay natively.
            groups = [(0, "nothing", 2, 1, False), (1, "a placeholder insn (opcode only) with any of the 8 overflow opcodes, add or invalid-insn", 3, 1, True)]
            for grp, gtxt, nin, mo, acc in groups:
                nmin, nmax = (0, MAXN) if full and grp == 0 else (ar, ar)
                obs.append(insn_ob(tier, "insn.%s.prev%d" % (code.lower(), grp), code, nmin, nmax, ["H_PREV_GROUP=%d" % grp],
                                   ninsns=nin, prevwalk=nin, maxops=mo, accept=acc, what="; preceded by " + gtxt, timeout=2400))
        elif code in INTERNAL:
            nmin, nmax = (0, 4) if full else (0, 3)
            obs.append(insn_ob(tier, "insn." + code.lower(), code, nmin, nmax, accept=False, what="; internal insn: never accepted"))
        else:
            nmin, nmax = (0, MAXN) if full else (ar, ar)
            defs = ["H_VARARG_ND"] if code == "VA_START" else []
            obs.append(insn_ob(tier, "insn." + code.lower(), code, nmin, nmax, defs, maxops=ar,
                               what="; function vararg flag symbolic" if defs else ""))
    # instruction forms that are / were findings.  Still-known ones (STILL) are excluded from the obligations above and are the sole
    # content of finding.* (expected: violated -> KNOWN-FINDING); repaired ones are the sole content of regress.* (must hold).
    KF = {"laddr-nonvar-output": ("LADDR", 1, 2, [], False), "va_start-undef-mem": ("VA_START", 2, 1, ["H_VARARG_ND"], False),
          "va_end-undef-mem": ("VA_END", 2, 1, [], False), "va_arg-undef-mem": ("VA_ARG", 2, 3, [], False),
          "va_block_arg-undef-mem": ("VA_BLOCK_ARG", 2, 4, [], False),
          "call-callee-proto-ref": ("CALL", 3, 4, ["H_PROTO=2"], False), "call-callee-blk-mem": ("CALL", 4, 4, ["H_PROTO=2"], False),
          "addr-nonreg-operand": ("ADDR", 5, 2, [], False), "addr8-nonreg-operand": ("ADDR8", 5, 2, [], False),
          "addr16-nonreg-operand": ("ADDR16", 5, 2, [], False), "addr32-nonreg-operand": ("ADDR32", 5, 2, [], False),
          # jcall forms: instructions whose only defects are operand value types / outputs (all ill-formed); every 6-operand jcall that
          # passes the prototype count check (the former out-of-bounds read of op_modes[5]; contains well-formed instructions too)
          "jcall-operands-unchecked": ("JCALL", 6, 4, ["H_PROTO=2"], False), "jcall-op-modes-out-of-bounds-read": ("JCALL", 6, 6, ["H_PROTO=0"], True)}
    for kname, (code, kid, n, defs, has_accept) in KF.items():
        still = not FIXED_IN_REPO
        if still:
            obs.append(insn_ob(tier, "finding." + kname, code, n, n, defs + ["H_KF_ONLY=%d" % kid], what="; ONLY the known-finding form"))
        else:
            obs.append(insn_ob(tier, "regress." + kname, code, n, n, defs + ["H_KF_ONLY=%d" % kid], accept=has_accept,
                               what="; ONLY the form of a repaired finding (must be rejected%s)" % (" unless well-formed" if has_accept else "")))
    # register declaration errors (create_func_reg / find_rd_by_reg / find_rd_by_name on the same constructed state)
    dloops = {"HTAB_hard_reg_desc_t_do#0": 2, "HTAB_size_t_do#0": 17, "HTAB_string_t_do#0": 17, "_MIR_reserved_name_p#0": 6, "memcmp#0": 8,
              "strncmp#0": 6, "strlen#0": 16, "memcpy#0": 4, "memcpy#1": 8, "strcmp#0": 8, "bitmap_expand#0": 2}
    dbuild = ["MIR_NO_INTERP", "MIR_NO_IO", "MIR_NO_SCAN", "H_HTAB_MODEL_CAP=16"]
    for k, (nm, cls) in enumerate(DECL_NAMES):
        obs.append(Ob("decl.new_reg.%s" % nm, "C15/decl.c", defs=dbuild + ["OP=1", "H_NAME=%d" % k] + (["H_W_ACCEPT"] if cls in ("fresh", "tform") else []),
                      loops=dloops, unwind=3, object_bits=12, timeout=600,
                      sample="MIR_new_func_reg (fn, <any MIR_type_t>, \"%s\") [%s name]: error code / new register found by number and name; second declaration rejected" % (nm, cls)))
        obs.append(Ob("decl.lookup_name.%s" % nm, "C15/decl.c", defs=dbuild + ["OP=3", "H_NAME=%d" % k] + (["H_W_ACCEPT"] if cls == "declared" else []),
                      loops=dloops, unwind=3, object_bits=12, timeout=600, sample="MIR_reg (\"%s\", fn) [%s name]" % (nm, cls)))
    obs.append(Ob("decl.lookup_reg", "C15/decl.c", defs=dbuild + ["OP=2"], loops=dloops, unwind=3, object_bits=12, timeout=600,
                  sample="find_rd_by_reg for every 32-bit register number: 1..5 found with their types, everything else MIR_undeclared_func_reg_error"))
    return obs


DECL_NAMES = [("a", "declared"), ("b", "declared"), ("f", "declared"), ("d", "declared"), ("l", "declared"), ("x", "fresh"), ("y1", "fresh"),
              ("hrx", "fresh"), ("hr0", "reserved"), ("hr15", "reserved"), (".lc3", "reserved"), ("t1", "tform")]


META = {
    "bounds": {
        "operands": "0..6 per instruction (thorough); quick tier: exactly the documented number for fixed-arity opcodes, "
                    "a window around the valid counts for ret/call/switch",
        "operand kinds": "thorough: 16 kinds per position; quick: REDUCED set of 9 kinds (no ld/undeclared register, no uint/float/"
                         "ldouble immediate, no func reference, no string)",
        "memory operands": "type: every MIR_type_t value; base, index: none / integer reg / float reg / undeclared; disp 0, 8, -8; scale 1",
        "function": "fn (i64 a) with locals i64 b, f f, d d, ld l, one label; result types per obligation variant",
        "prototypes": "4 variants (results, scalar/blk/rblk args, vararg)", "hash table model capacity": 6,
        "overflow branches": "preceded by nothing or by ONE placeholder insn (opcode only, no operands) with any overflow opcode / add / "
                             "invalid-insn; the 'separated only by register moves' part of the rule is NOT covered: addo; mov; bo all on the "
                             "heap needs > 29 GB, and with a placeholder addo + real mov CBMC 6.11 misreads prev_insn->ops[1].mode through a "
                             "pointer loaded from heap cells (counterexamples that do not replay natively)",
    },
    "assumptions": [
        "library state (context, module, function, register tables, prototype, import, label) CONSTRUCTED DIRECTLY as static data in "
        "the harness, not through MIR_init/MIR_new_module/MIR_new_func (no verdict through the API); the native replay builds the same "
        "state with the real API and the same register numbers",
        "mir-htab.h replaced by the abstract-map model h_htab_model.h (justified by C19: the real HTAB behaves as this map)",
        "mir-hash.h pre-empted by a constant hash (unused by the model table)",
        "build flags MIR_NO_INTERP, MIR_NO_IO, MIR_NO_SCAN (fewer indirect-call candidates); asserts enabled (no NDEBUG)",
        "MIR_malloc modelled as typed 8-byte cells with room for 6 operands (exact sizes only in the native ASan replay)",
        "insn_nops filled (with the loop of check_and_prepare_insn_descs) only for the opcodes an obligation looks up",
        "string operands built directly (MIR_new_str_op interns into the string table, which is not part of the constructed state)",
        "the oracle follows the implementation where MIR.md is silent/ambiguous (DOC-AMBIGUITY comments in ref/mir_modes_ref.h): addr8/16/32 "
        "accept a register of any type; prset's 1st operand is unconstrained; the property constant must be a SIGNED immediate; va_arg's "
        "memory operand is not checked beyond being memory; va_arg/va_block_arg/va_end are accepted in non-vararg functions; unnamed "
        "arguments of a vararg call may be any operand (even a label); label and invalid-insn created through MIR_new_insn_arr with zero "
        "operands are accepted; register names of the form t<number> (forbidden by MIR.md) are accepted by MIR_new_func_reg; "
        "a wrong number of ret operands / jret in a function with results / va_start outside a vararg function are reported with "
        "MIR_vararg_func_error (any code is accepted for these)",
        "no instruction form is excluded from the per-opcode obligations any more: the last finding (a va_list operand given as memory of "
        "undefined type, which MIR.md allows, was rejected) was repaired in /repo (6f02dfae); regress.va_*-undef-mem pin that form",
        "the forms of the findings repaired in /repo (commits 6f02dfae va_list undef-type memory, d9fc5f08 addr operand, 15c0ce9b jcall modes, 789ebb63 laddr output, ea7651df "
        "prototype/block callee) are no longer excluded; each is additionally the sole content of an obligation regress.* that must hold "
        "(FIXED_IN_REPO = False in props/C15.py restores the exclusion and the finding.* obligations for an unrepaired tree)",
        "a nondeterministic read caused by CBMC's handling of item->u.proto->field on small objects would over-approximate (spurious "
        "counterexamples only); none was observed",
    ],
}


def check(tier, only=None):
    import resource
    r0 = resource.getrusage(resource.RUSAGE_CHILDREN)
    rc = run_all("C15", tier, obligations(tier), "model_checking", dict(META), only=only)
    r1 = resource.getrusage(resource.RUSAGE_CHILDREN)
    print("CPU property=C15 tier=%s child user+sys = %.0f s (goto-cc, cbmc, replay builds)" % (tier, r1.ru_utime + r1.ru_stime - r0.ru_utime - r0.ru_stime))
    return rc
