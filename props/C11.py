"""C11 - binary MIR round trip, token layer (DESIGN.md section 3, C11).

Real code under CBMC: put_byte/put_uint/write_int/write_uint/write_float/write_double/write_ldouble/write_type/
write_lab/write_str_tag/write_name/write_reg/write_op/write_item  against  get_byte/get_uint/read_token/read_int/
read_uint/read_disp/read_type/read_name/read_reg/to_lab/to_reg/to_str/read_operand/MIR_read_with_func,
built with the repo's own -DMIR_NO_BIN_COMPRESSION (byte stream = harness array; compression layer = C12)."""
from vlib import Ob, run_all

DEFS = ["MIR_NO_BIN_COMPRESSION", "MIR_NO_INTERP", "MIR_NO_SCAN=1"]

# loops of the real code and of the h.h string/memory helpers; everything else in these harnesses is do{}while(0)
LOOPS = {"get_uint#0": 9, "put_uint#0": 9, "int_length#0": 9, "uint_length#0": 9, "h_nbytes#0": 9,
         "strlen#0": 8, "strcmp#0": 8, "strncmp#0": 8, "memcmp#0": 17, "memcpy#0": 5, "memcpy#1": 20,
         "memset#0": 8, "memset#1": 40, "to_lab#0": 9,
         "HTAB_string_t_do#0": 13, "HTAB_size_t_do#0": 13, "HTAB_MIR_item_t_do#0": 13}

TOK = [(1, "int", "write_int vs read_token/read_int/read_disp: every int64 value"),
       (2, "uint", "write_uint vs read_token/read_uint: every uint64 value"),
       (3, "float", "write_float vs read_token: every 32-bit pattern (NaN payloads)"),
       (4, "double", "write_double vs read_token: every 64-bit pattern (NaN payloads)"),
       (5, "ldouble", "write_ldouble vs read_token: every 80-bit x87 pattern (10 value bytes)"),
       (6, "type", "write_type vs read_token/read_type: every type i8..p, blk0..blk4, rblk"),
       (7, "lab", "write_lab vs read_token: every label number < 2^32"),
       (8, "strtag", "write_str_tag (STR/NAME/REG classes) vs read_token: every string number < 2^32 (1/2/3/4-byte tags)"),
       (9, "labattach", "three label references a,b,a (a,b < 8) written by write_lab, resolved by to_lab: same label insn iff same number")]

OPK = [(1, "reg", "register operand r1|r2 (by name through the string table and the function's register tables)"),
       (2, "int", "int immediate, every int64"), (3, "uint", "uint immediate, every uint64"),
       (4, "float", "float immediate, every bit pattern"), (5, "double", "double immediate, every bit pattern"),
       (6, "ldouble", "long double immediate, every 80-bit pattern"),
       (7, "mem", "memory operand: type any of 18 type tags, disp any int64, base/index each absent|r1|r2, scale 0..255, "
                  "alias/nonalias each none|al|nal (all 14 MEM tags)"),
       (8, "ref", "ref operand to an item of the module"), (9, "str", "str operand (3 bytes incl. NUL)"),
       (10, "label", "label operand, label number < 8")]

TYPES = ["i8", "u8", "i16", "u16", "i32", "u32", "i64", "u64", "f", "d", "ld", "p"]


def obligations(tier):
    obs = []
    for n, name, sample in TOK:
        obs.append(Ob("tok." + name, "C11/tok.c", defs=DEFS + ["OB=%d" % n], loops=LOOPS, unwind=3, object_bits=12,
                      timeout=600, sample=sample))
    for n, name, sample in OPK:
        obs.append(Ob("op." + name, "C11/op.c", defs=DEFS + ["OPK=%d" % n], loops=LOOPS, unwind=3, object_bits=12,
                      timeout=900, sample="write_op vs read_operand: " + sample))
    # data-item element loop and lref through the real write_item / MIR_read_with_func.  Quick: the two suspected
    # defects (F4) and one type of each token family; thorough: every element type and value set.
    iloops = dict(LOOPS)
    iloops.update({"MIR_read_with_func#0": 2, "MIR_read_with_func#1": 4, "MIR_read_with_func#5": 3, "push_data#0": 17,
                   "read_all_strings#0": 3, "read_all_strings#1": 7, "write_item#0": 3, "memcmp#0": 17,
                   "harness#0": 8, "harness#1": 8, "harness#2": 8, "harness#3": 8, "harness#4": 8, "harness#5": 8, "harness#6": 8})
    quick_types = ["i64", "u8", "d", "ld", "p"]
    for t, tn in enumerate(TYPES):
        if tier == "quick" and tn not in quick_types:
            continue
        vsets = [0] if (tier == "quick" or t >= 8 and tn != "p") else [0, 1, 2]
        for vs in vsets:
            sym = "2 symbolic elements (all bit patterns)" if tn in ("f", "d", "ld") else \
                  "2 concrete elements, value set %d (0: extremes, 1: 0/1, 2: 127/128)" % vs
            obs.append(Ob("item.data.%s%s" % (tn, "" if vs == 0 else ".v%d" % vs), "C11/item.c",
                          defs=DEFS + ["H_DATA", "ELT=%d" % t, "H_VSET=%d" % vs], loops=iloops, unwind=3, object_bits=12,
                          timeout=600,
                          sample="write_item(data of %s, %s) + string table + EOFILE -> MIR_read_with_func: item, type, count and "
                                 "bytes equal" % (tn, sym)))
    nloops = dict(LOOPS)
    nloops.update({"h_strtoul#0": 6, "h_snprintf#0": 9, "h_snprintf#1": 7, "h_snprintf#2": 7, "harness#0": 6, "strlen#0": 8, "strcmp#0": 9, "strncmp#0": 8})
    obs.append(Ob("name.temp_item", "C11/name.c", defs=DEFS, loops=nloops, unwind=3, object_bits=12, timeout=600,
                  sample="read_name on a NAME token whose string is any <= 5 characters of [a-z0-9.] (reserved `.lc<n>` names included), then "
                         "_MIR_get_temp_item_name on the module: the fresh name differs from the name read"))
    for two in (0, 1):
        obs.append(Ob("item.lref.%dlab" % (two + 1), "C11/item.c", defs=DEFS + ["H_LREF", "H_TWO=%d" % two], loops=iloops,
                      unwind=3, object_bits=12, timeout=600,
                      sample="write_item(lref L3%s, -9) -> MIR_read_with_func in a context that has just read function f "
                             "(labels 3 and 5): the lref's labels are f's labels" % (", L5" if two else "")))
    return obs


META = {
    "bounds": {
        "claim": "TOKEN LAYER of binary MIR: each token writer against its reader, and write_op against read_operand, for all "
                 "payload values; plus (item.*) one data/lref item through the real write_item and the real MIR_read_with_func",
        "byte stream": "harness array of 64 bytes between io_writer and io_reader (-DMIR_NO_BIN_COMPRESSION, the repo's own switch); "
                       "with compression enabled the same bytes pass through reduce_encode/reduce_decode, whose round trip is C12",
        "label numbers": "< 2^32 (write_lab asserts nb <= 4); to_lab resolution for label numbers < 8",
        "string numbers": "< 2^32 (write_str_tag asserts nb <= 4); resolution through tables of 7 strings",
        "registers": "function with 2 declared registers r1, r2; names not of the reserved form t<digits> "
                     "(process_reserved_name -> strtoul is libc)",
        "name.temp_item": "strtoul modelled for unsigned decimal numerals (<= 5 digits, no sign/blank prefix), snprintf for \"%s%u\"; names <= 5 characters of [a-z0-9.]",
        "memory operand": "type symbolic over all 18 type tags, disp all int64, base/index in {absent,r1,r2}, scale 0..255, "
                          "alias/nonalias in {none,al,nal}; scale compared only when an index register is present "
                          "(the format does not carry the scale otherwise; reader yields 0)",
        "item.data": "2 elements per item; f/d/ld elements fully symbolic; integer and p elements CONCRETE (3 value sets) "
                     "because symbolic integers make token lengths, hence all later stream positions and tags, symbolic "
                     "(no verdict); every integer value/width is covered at token level by tok.int/tok.uint",
        "item.lref": "label numbers 3 and 5, displacement -9, anonymous lref",
        "containers": "static storage with capacities 4..64; growth (MIR_realloc) asserted unreachable",
        "out of the claim": "determinism of two whole-module writes (note: put_ldouble copies 6 padding bytes of a local union "
                            "into the stream), whole-module identity, string-table construction over many strings "
                            "(write_modules(NULL) pass / read_all_strings beyond 1 string), the compression layer (C12), "
                            "func/proto/import/export/forward/bss/ref/expr item branches of the reader (need MIR_new_func_arr, "
                            "MIR_finish_func: no verdict under CBMC)",
    },
    "assumptions": [
        "state constructed directly as static C data (no MIR_init, no MIR_new_*): context, io_ctx, string tables, one function "
        "with two registers, alias table, one import item; see harness/C11/c11.h",
        "mir-htab.h replaced by the abstract-map model h_htab_model.h in CBMC mode (justified by C19); real HTAB in the native replay",
        "mir-hash.h replaced by a constant hash in CBMC mode (C19 proves the table for arbitrary hash values)",
        "MIR_malloc/MIR_free = CBMC malloc/free at the call site; MIR_realloc asserted unreachable (static capacities)",
        "well-formed writer input: operands of the modes the writer accepts, label operands with MIR_OP_INT label numbers",
        "x86-64 long double: 10 value bytes of 16 compared",
    ],
}


def check(tier, only=None):
    return run_all("C11", tier, obligations(tier), "model_checking", META, only=only)
