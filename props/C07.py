"""C07 - C programs compiled by c2mir behave as under the reference compiler.
Claimed (DESIGN.md section 3, C07 and 8.4): the conversion kernel - the real `integer_promotion`, `arithmetic_conversion` and
`cast_value` of c2mir/c2mir.c against ref/cconv_ref.h (C11 6.3.1.x, x86-64 LP64) - and the constant folding of the binary
integer operators - the real `check_assign_op` against ref/cfold_ref.h (C11 6.5.5-6.5.12).
Parser, the rest of check() and gen() are NOT decided by this check."""
import os

from vlib import Ob, run_all

TYPES = ["bool", "char", "schar", "uchar", "short", "ushort", "int", "uint", "long", "ulong", "llong", "ullong",
         "float", "double", "ldouble"]
# native replay only: c2mir.c references the MIR API (never called by these harnesses); leaving the symbols
# unresolved saves compiling mir.c with ASan for every reproduced counterexample (30 s -> 8 s)
NATIVE = ["-no-pie", "-Wl,--unresolved-symbols=ignore-all"]
LOOPS = {"h_cc#0": 17, "memset#0": 17, "memset#1": 130, "memcpy#0": 17, "memcpy#1": 130}


def ob(name, defs, sample, timeout=300, solver=None):
    return Ob(name, "C07/conv.c", defs=defs, unwind=17, loops=LOOPS, object_bits=10, timeout=timeout, solver=solver,
              native_cc=NATIVE, sample=sample)


def obligations(tier):
    universe = "15 basic arithmetic types + enum types with underlying int/unsigned/long/unsigned long/long long/unsigned long long + undefined enum"
    obs = [ob("promotion", ["H_MODE=1"], "integer_promotion(t) for every integer type: " + universe),
           ob("usual_arith", ["H_MODE=2"], "arithmetic_conversion(t1,t2) for all 22x22 pairs: " + universe),
           ob("usual_arith.xLLUL", ["H_MODE=2", "H_EXCLUDE_LLUL"],
              "as usual_arith without the pair (long long, unsigned long)")]
    for k, t in enumerate(TYPES):
        s = "cast_value: constant of type %s (every value of the type; also as enum with that underlying type) -> every target type" % t
        fp = k >= 12
        obs.append(ob("cast.from_" + t, ["H_MODE=3", "H_FROM=%d" % k], s, 600 if fp else 300, "cadical" if fp else None))
        obs.append(ob("cast.from_%s.xBool" % t, ["H_MODE=3", "H_FROM=%d" % k, "H_EXCLUDE_BOOL"], s + " except _Bool",
                      600 if fp else 300, "cadical" if fp else None))
    # constant folding of the binary integer operators (real check_assign_op against ref/cfold_ref.h)
    fops = ["and", "or", "xor", "lsh", "rsh", "add", "sub", "mul", "div", "mod"]
    tn = ["bool", "char", "schar", "uchar", "short", "ushort", "int", "uint", "long", "ulong", "llong", "ullong"]
    pairs = [(6, 6), (7, 6), (8, 7), (9, 10), (4, 3), (10, 0), (7, 7), (11, 8)]
    for k, o in enumerate(fops):
        heavy = o in ("mul", "div", "mod")
        if heavy:
            # symbolic operand types in front of a 64-bit multiplier/divider: no verdict in 25 min (z3); type pairs concrete instead
            # quick: the two pairs with an UNSIGNED result type (32 and 64 bits), about 5 CPU-minutes each; signed results (overflow side
            # condition on top of the multiplier/divider) took > 15 minutes: thorough tier only, long timeout
            # thorough: the pairs measured to give a verdict within 900 s (all with an unsigned result type, plus the signed ones that did);
            # the remaining signed-result pairs (int x int, long x unsigned for *, short x unsigned char for / %) gave none: VERIF_DEEP=1 only
            ok = {"mul": [(7, 6), (9, 10), (4, 3), (7, 7), (11, 8)], "div": [(7, 6), (8, 7), (9, 10), (7, 7), (11, 8)], "mod": [(7, 6), (8, 7), (9, 10), (7, 7), (11, 8)]}[o]
            deep = pairs if os.environ.get("VERIF_DEEP") == "1" else ok
            for a, b in (deep if tier != "quick" else [(7, 6), (9, 10)]):
                obs.append(Ob("fold.%s.%s_%s" % (o, tn[a], tn[b]), "C07/fold.c", defs=["H_OP=%d" % k, "H_T1=%d" % a, "H_T2=%d" % b], unwind=13,
                              loops={"h_cc#0": 13, "memset#0": 17, "memset#1": 130}, object_bits=10, timeout=900 if tier == "quick" else 5400, solver="z3", native_cc=NATIVE,
                              sample="check_assign_op folding `a %s b` for a constant a of type %s and b of type %s, every value: result type and value as C11" % (o, tn[a], tn[b])))
            continue
        obs.append(Ob("fold." + o, "C07/fold.c", defs=["H_OP=%d" % k], unwind=13, loops={"h_cc#0": 13, "memset#0": 17, "memset#1": 130},
                      object_bits=10, timeout=1500 if heavy else 600, solver="z3" if heavy else None, native_cc=NATIVE,
                      sample="check_assign_op folding `a %s b` for constants a, b of every pair of the 12 integer types and every value of "
                             "those types: result type and value as C11 defines them (undefined cases excluded)" % o))
    return obs


def check(tier, only=None):
    obs = obligations(tier)   # the kernel is small: both tiers run the same complete set
    if only:
        obs = [o for o in obs if only in o.name]
    meta = {
        "bounds": {
            "types": "all 15 arithmetic basic types; enum types with each underlying type c2mir's enum processing can choose; "
                     "pointer types (cast_value's TM_PTR paths) not encoded",
            "values": "every value of the source type: integers all bit patterns of the type's width, float/double all "
                      "bit patterns incl. NaN/inf/denormals, long double all canonical x87 encodings",
        },
        "assumptions": [
            "ONLY the conversion kernel and check_assign_op's folding of & | ^ << >> + - * / % on integer constants are decided; the parser, the "
            "rest of check() (incl. where it calls these functions, the choice of an enum's underlying type, folding of comparisons, unary "
            "operators, casts in context and floating operands - c2mir folds those in long double, which CBMC does not model as x87) and gen() are NOT decided.",
            "fold.*: operands are constants of the 12 integer basic types with every value of the type; a folded constant is read as every c2mir "
            "consumer reads it (convert_value to its own type); cases the standard leaves undefined (signed overflow, division by zero, INT_MIN/-1, "
            "shift count out of range, << of a negative value or with an unrepresentable result) are not asserted; >> of a negative value is "
            "arithmetic (gcc); * / %: operand type pairs concrete (quick: unsigned int x int, unsigned long x long long; thorough: 8 pairs), other "
            "operators: all 144 type pairs symbolic; diagnostics dropped (message_file NULL)",
            "x86-64 SysV LP64 data model; plain char signed; out-of-range conversion to a signed integer type wraps "
            "(implementation-defined, gcc); round-to-nearest-even for integer/floating -> floating.",
            "floating -> integer conversions whose truncated value is not representable are undefined (C11 6.3.1.4p1) "
            "and not asserted.",
            "A constant is represented as c2mir does: i_val sign-extended for signed types, u_val zero-extended for "
            "unsigned types and _Bool, d_val (long double) holding a float/double/long double value; the source constant "
            "is assumed to be a value of its type.",
            "long double: CBMC models it as a 128-bit IEEE format, not as the x87 80-bit extended format; the long double "
            "obligations establish that cast_value applies the same C conversion as the oracle for CBMC's format; "
            "counterexamples are confirmed natively on x87 values.",
            "The oracle expresses value conversions by C casts between fixed-width types, i.e. by the reference "
            "compiler's semantics (CBMC's C semantics in the model, gcc in the native replay).",
        ],
    }
    return run_all("C07", tier, obs, "model_checking", meta)
