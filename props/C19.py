"""C19 — container headers vs abstract models (DESIGN.md section 3, C19)."""
from vlib import Ob, run_all

BITMAP_OPS = {1: "set_bit_p", 2: "clear_bit_p", 3: "set_bit_range_p", 4: "clear_bit_range_p", 5: "copy",
              6: "equal_p", 7: "intersect_p", 8: "empty_p", 9: "bit_count", 10: "bit_min", 11: "bit_max",
              12: "and", 13: "and_compl", 14: "ior", 15: "ior_and", 16: "ior_and_compl", 17: "iterator_next"}


def bitmap_loops(op, mw):
    """Per-loop bounds (function#k = k-th loop in source order): word loops mw+2, bit loops 66."""
    w = mw + 3
    return {"bitmap_expand#0": w + 1, "bitmap_set_or_clear_bit_range_p#0": w, "bitmap_equal_p#0": w,
            "bitmap_intersect_p#0": w, "bitmap_empty_p#0": w,
            "bitmap_bit_count#0": w, "bitmap_bit_count#1": 66, "bitmap_bit_min#0": w, "bitmap_bit_min#1": 66,
            "bitmap_bit_max#0": w, "bitmap_bit_max#1": 66, "bitmap_op2#0": w, "bitmap_op3#0": w,
            "bitmap_iterator_next#0": w, "bitmap_iterator_next#1": 66,
            "memcpy#0": w + 1, "memcpy#1": 8 * w, "memcmp#0": 8 * w, "h_popcount#0": 65,
            "h_ledger_find#0": 9}


def obligations(tier):
    obs = []
    maxw = 3 if tier == "quick" else 4
    for op, name in BITMAP_OPS.items():
        bitloop = op in (9, 10, 11, 17)   # loops over the 64 bits of a word
        mw = (1 if op == 9 else 2) if bitloop and tier == "quick" else (2 if op == 9 else 3) if bitloop else maxw
        obs.append(Ob("bitmap." + name, "C19/bitmap.c", defs=["OP=%d" % op, "H_MAXW=%d" % mw, "H_SLOT_MAX=8"],
                      unwind=mw + 4, loops=bitmap_loops(op, mw),
                      checks="memsafe", timeout=1200, solver="cadical" if bitloop else None,
                      sample="bitmap_%s: 3 bitmaps of 0..%d arbitrary words, capacity arbitrary, operands any aliasing, bit numbers < %d"
                             % (name, mw, (mw + 1) * 64)))
    return obs


def check(tier, only=None):
    obs = obligations(tier)
    if only:
        obs = [o for o in obs if only in o.name]
    meta = {"bounds": {}, "assumptions": []}
    return run_all("C19", tier, obs, "model_checking", meta)
