"""C19 — container headers vs abstract models (DESIGN.md section 3, C19)."""
import os

from vlib import Ob, run_all

BITMAP_OPS = {1: "set_bit_p", 2: "clear_bit_p", 3: "set_bit_range_p", 4: "clear_bit_range_p", 5: "copy",
              6: "equal_p", 7: "intersect_p", 8: "empty_p", 9: "bit_count", 10: "bit_min", 11: "bit_max",
              12: "and", 13: "and_compl", 14: "ior", 15: "ior_and", 16: "ior_and_compl", 17: "iterator_next"}


def bitmap_loops(op, mw):
    """Per-loop bounds (function#k = k-th loop in source order): word loops mw+2, bit loops 66."""
    w = mw + 3
    return {"bitmap_expand#0": w + 1, "bitmap_set_or_clear_bit_range_p#0": w, "bitmap_equal_p#0": w,
            "bitmap_intersect_p#0": w, "bitmap_empty_p#0": w,
            "bitmap_bit_count#0": w, "bitmap_bit_count#1": 66, "bitmap_bit_min#0": w, "bitmap_bit_min#1": 66,
            "bitmap_bit_max#0": w, "bitmap_bit_max#1": 66, "bitmap_op2#0": w, "bitmap_op3#0": w,
            "bitmap_iterator_next#0": w, "bitmap_iterator_next#1": 66,
            "memcpy#0": w + 1, "memcpy#1": 8 * w, "memcmp#0": 8 * w, "h_popcount#0": 65,
            "h_ledger_find#0": 9}


def htab_ob(nops, nkeys, timeout):
    S = 2 if nops <= 2 else 4 if nops <= 4 else 8       # largest element array any sequence of nops inserts reaches
    loops = {"HTAB_h_el_do#0": 2 * S + 1, "HTAB_h_el_do#1": S // 2 + 1, "HTAB_h_el_do#2": 2 * S + 4,
             "HTAB_h_el_clear#0": S + 1, "HTAB_h_el_clear#1": 2 * S + 1, "HTAB_h_el_create#0": 3, "HTAB_h_el_create#1": 6,
             "harness#0": max(nops, nkeys) + 1, "harness#1": max(nops, nkeys) + 1, "harness#2": max(nops, nkeys) + 1, "harness#3": max(nops, nkeys) + 1,
             "h_ledger_live#0": 9, "h_ledger_find#0": 9}
    return Ob("htab.seq%d.keys%d" % (nops, nkeys), "C19/htab.c",
              defs=["H_NOPS=%d" % nops, "H_NKEYS=%d" % nkeys, "H_ELS_CAP=%d" % S, "H_SLOT_MAX=8"],
              loops=loops, unwind=3, unwindset={"HTAB_h_el_do": 1}, checks="memsafe", timeout=timeout,
              sample="HTAB: every sequence of <= %d ops from {FIND,INSERT,REPLACE,DELETE,clear} x %d keys x values < 256 from "
                     "create(min_size 2); the %d hash values are arbitrary 32-bit numbers" % (nops, nkeys, nkeys))


def obligations(tier):
    obs = []
    maxw = 3 if tier == "quick" else 4
    for op, name in BITMAP_OPS.items():
        bitloop = op in (9, 10, 11, 17)   # loops over the 64 bits of a word
        mw = (1 if op == 9 else 2) if bitloop and tier == "quick" else (2 if op == 9 else 3) if bitloop else maxw
        obs.append(Ob("bitmap." + name, "C19/bitmap.c", defs=["OP=%d" % op, "H_MAXW=%d" % mw, "H_SLOT_MAX=8"],
                      unwind=mw + 4, loops=bitmap_loops(op, mw),
                      checks="memsafe", timeout=1200, solver="cadical" if bitloop else None,
                      sample="bitmap_%s: 3 bitmaps of 0..%d arbitrary words, capacity arbitrary, operands any aliasing, bit numbers < %d"
                             % (name, mw, (mw + 1) * 64)))
    for op, name in {1: "push", 2: "pop", 3: "push_arr", 4: "expand", 5: "tailor", 6: "trunc_set_get_last"}.items():
        ml = 6 if tier == "quick" else 10
        obs.append(Ob("varr." + name, "C19/varr.c", defs=["OP=%d" % op, "H_MAXL=%d" % ml, "H_SLOT_MAX=8"], unwind=ml + 6,
                      checks="memsafe", timeout=600,
                      sample="VARR_%s from an arbitrary state: length 0..%d, capacity length..%d, contents arbitrary" % (name, ml, ml + 2)))
    nd_ops = 4 if tier == "quick" else 5   # 6 ops: no verdict in 40 min
    obs.append(Ob("dlist.seq%d" % nd_ops, "C19/dlist.c", defs=["H_NOPS=%d" % nd_ops, "H_NN=4"], unwind=max(7, nd_ops + 2), checks="memsafe",
                  timeout=2400, sample="DLIST: every sequence of <= %d ops from {prepend,append,insert_before,insert_after,remove} over 4 nodes, "
                  "observed after every op by forward/backward walks, length and DLIST_EL(n) for every n in [-5,5]" % nd_ops))
    if tier == "quick":
        obs.append(htab_ob(3, 3, 900))
    else:
        obs.append(htab_ob(3, 3, 1500))
        if os.environ.get("VERIF_DEEP") == "1":
            obs.append(htab_ob(4, 3, 7200))   # (4 ops, 3 keys): no verdict in 60 min; (4 ops, 4 keys): none in 50 min
        obs.append(htab_ob(3, 4, 3600))
    return obs


def check(tier, only=None):
    meta = {"bounds": {}, "assumptions": []}
    return run_all("C19", tier, obligations(tier), "model_checking", meta, only=only)
