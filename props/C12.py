"""C12 - compression layer mir-reduce.h (DESIGN.md section 3, C12).

Obligations (every one is a CBMC query over the real /repo/mir-reduce.h, inputs symbolic):
  decode.safety.N<n>     reduce_decode_start + ONE refill call of reduce_decode_get + reduce_decode_finish on an
                         arbitrary stream of <= n bytes, arbitrary stale ind2pos[]/buf[]; all memory checks on
  decode.copy-*.N<n>     diagnostic split of decode.safety: one precondition of the back-reference copy asserted,
                         the others assumed, so that each defect of the copy gets its own counterexample
  decode.contract.N<n>   accept => well-formed, as the contract of one refill from an arbitrary chain hash
  roundtrip.B<b>[...].L<l>  encode then decode of EVERY input of exactly l bytes (all bytes symbolic), memory checks on
  cut.truncate / cut.extend  every proper prefix / every one-byte extension of the encoder output is rejected
"""
from vlib import Ob, run_all


def dec_loops(n, b):
    """decode_safety.c / decode_contract.c; n = stream bytes, b = _REDUCE_BUF_LEN."""
    return {"reduce_decode_get#0": max(n - 3, 0) // 2 + 1,  # every element that does not end the call eats >= 2 bytes
            "reduce_decode_get#1": b + 1,                   # ind2pos fill, sym_len <= BUF_LEN
            "h_reader#0": b + 1, "h_reader#1": 9,           # read into buf[] (<= BUF_LEN), read of 1/3/8 bytes
            "h_memcpy#0": b + 1,
            "_reduce_uint_read#0": 6, "_reduce_uint_read#1": 5, "_reduce_str2hash#0": 9, "h_le64#0": 9,
            "strlen#0": 5, "memcmp#0": 4, "mir_hash_strict#0": b + 1,
            "harness#0": n + 1, "harness#1": b + 1}


def rt_loops(l, b, maxs):
    """roundtrip.c; l = input bytes, b = _REDUCE_BUF_LEN, maxs = _REDUCE_MAX_SYMB_LEN."""
    ts, m = b // 4, min(l, b)
    elements = (max(m - 8, 0)) // 4 + 3 + m // maxs          # elements of one chunk + trailer tag (see roundtrip.c)
    chain = (min(m - 3, ts) + 1) if m >= 4 else 1            # dictionary chain: <= min (table size, positions added)
    # decoder-side loops get the buffer length b, not the input length m: an encoder defect that makes the decoder produce
    # more than the input must end in the round-trip assertion, not in an unwinding failure
    return {"reduce_decode_get#0": elements + 1, "reduce_decode_get#1": b + 1,
            "_reduce_encode_buf#0": m + 1, "_reduce_dict_add#0": chain,
            "_reduce_dict_find_longest#0": chain, "_reduce_dict_find_longest#1": m + 1,  # generous: a wrong length bound must show as a violation, not as an unwinding failure
            "_reduce_reset_next#0": ts + 1, "_reduce_hash_write#0": 9,
            "_reduce_uint_write#0": 5, "_reduce_uint_write#1": 4, "_reduce_uint_read#0": 6, "_reduce_uint_read#1": 5,
            "_reduce_str2hash#0": 9, "strlen#0": 5, "memcmp#0": 4, "mir_hash_strict#0": b + 1,
            "h_reader#0": b + 1, "h_reader#1": 9, "h_writer#0": b + 1, "h_writer#1": 4, "h_memcpy#0": b + 1}


def dec_ob(name, src, n, b=16, defs=(), checks="memsafe", timeout=900, what=""):
    return Ob(name, "C12/" + src, defs=["MIR_VERIF_REDUCE_BUF_LEN=%d" % b, "H_N=%d" % n] + list(defs),
              loops=dec_loops(n, b), unwind=max(n, b) + 2, checks=checks, timeout=timeout, object_bits=11,
              sample="%s: every stream of 0..%d arbitrary bytes (prefix included), arbitrary stale ind2pos[]/buf[], BUF_LEN %d"
                     % (what, n, b))


def rt_ob(name, l, b=16, maxs=31, defs=(), timeout=900, what="round trip"):
    return Ob(name, "C12/roundtrip.c",
              defs=["MIR_VERIF_REDUCE_BUF_LEN=%d" % b, "MIR_VERIF_REDUCE_MAX_SYMB_LEN=%d" % maxs, "H_L=%d" % l] + list(defs),
              loops=rt_loops(l, b, maxs), unwind=max(l, b) + 2, checks="memsafe", timeout=timeout, object_bits=11,
              sample="%s: every input of exactly %d arbitrary bytes, BUF_LEN %d, MAX_SYMB_LEN %d" % (what, l, b, maxs))


FOCUS = {1: "dst", 2: "src", 3: "overlap", 4: "order"}


def obligations(tier):
    q = tier == "quick"
    obs = []
    # 1. decoder memory safety on arbitrary bytes
    for n in ([12] if q else [12, 16, 20]):
        obs.append(dec_ob("decode.safety.N%d" % n, "decode_safety.c", n, timeout=600 if q else 1500,
                          what="decoder memory safety (one refill)"))
    for k, nm in FOCUS.items():     # diagnostic split; NDEBUG: the library's own assert()s are decode.safety's business
        obs.append(dec_ob("decode.copy-%s.N12" % nm, "decode_safety.c", 12, defs=["H_FOCUS=%d" % k, "NDEBUG"],
                          checks="functional", what="back-reference copy, precondition '%s' alone" % nm))
    # 2. accept => well-formed (relative to 1: unsafe copies are assumed away, NDEBUG = release build)
    for n in ([14] if q else [14, 18]):
        obs.append(dec_ob("decode.contract.N%d" % n, "decode_contract.c", n, defs=["H_COPY_ASSUMED", "NDEBUG"],
                          checks="functional", timeout=600 if q else 1500, what="accept => well-formed (one refill)"))
    # 3. round trip, one obligation per exact length
    for l in range(0, 10 if q else 11):
        obs.append(rt_ob("roundtrip.B16.L%d" % l, l, timeout=300 if l <= 8 else 1500))
    for l in ([8] if q else [8, 9]):             # symbol longer than MAX_SYMB_LEN: the flush in _reduce_output_byte
        obs.append(rt_ob("roundtrip.B16.S7.L%d" % l, l, maxs=7, timeout=300 if q else 1500))
    for l in ([9, 10] if q else [9, 10, 12, 16, 17]):   # BUF_LEN 8: 2 and 3 buffers (one and two boundaries)
        obs.append(rt_ob("roundtrip.B8.L%d" % l, l, b=8, maxs=15, timeout=300 if q else 1500))
    if not q:
        for l in (6, 8):                         # the uint32_t-compare variant of _reduce_dict_find_longest
            obs.append(rt_ob("roundtrip.B16.U.L%d" % l, l, defs=["H_UNALIGNED=1"], timeout=1500))
    # 4. truncation / extension
    for l in ([6] if q else [6, 8]):
        obs.append(rt_ob("cut.truncate.B16.L%d" % l, l, defs=["H_CUT=1"], what="every proper prefix of the encoder output"))
        obs.append(rt_ob("cut.extend.B16.L%d" % l, l, defs=["H_CUT=2"], what="encoder output + one arbitrary byte"))
    obs.append(rt_ob("cut.truncate.B8.L9", 9, b=8, maxs=15, defs=["H_CUT=1"], what="every proper prefix, two buffers"))
    if not q:
        obs.append(rt_ob("cut.extend.B8.L9", 9, b=8, maxs=15, defs=["H_CUT=2"], what="one-byte extension, two buffers"))
    return obs


META = {
    "bounds": {
        "buffer": "_REDUCE_BUF_LEN 16 (table 4) and 8 (table 2) through the MIR_VERIF_REDUCE_BUF_LEN hook; the shipped value 2^18 "
                  "and BUF_LEN 32 are not run (the algorithm text is the same, the claim is for the window sizes named)",
        "max_symb_len": "_REDUCE_MAX_SYMB_LEN 31/15/7 through the MIR_VERIF_REDUCE_MAX_SYMB_LEN hook in the encoder obligations "
                        "(2047 makes struct reduce_data 2.2 KB and every s1[len]/s2[len] in _reduce_dict_find_longest a "
                        "byte-extract over all of it: out of memory at input length 8); 7 makes the symbol-overflow flush reachable. "
                        "The decoder-only obligations keep 2047.",
        "decode.safety": "stream of 0..12 (quick) / 0..20 (thorough) bytes including the 3 prefix bytes, every byte and the length "
                         "symbolic; ONE refill call (pos/curr_ind are reset per call, see decode_safety.c); 24 bytes: no verdict in 17 min",
        "decode.contract": "stream of 0..14 (quick) / 0..18 (thorough) bytes, arbitrary incoming check hash and ok_p; one refill",
        "roundtrip": "every input of exactly L bytes, all 256^L contents: BUF 16: L = 0..8 (quick) / 0..10 (thorough), i.e. less than "
                     "one buffer (L = 10 takes 5 min, 12 no verdict in 10 min); BUF 8: L = 9, 10 (quick) / 9..17 (thorough), i.e. two "
                     "and three buffers, one and two buffer boundaries, a full last buffer (16) included.  A restriction to 2 "
                     "symbolic byte values was tried and is slower, so it is not used.",
        "cut": "input of exactly 6 (8 thorough) bytes at BUF 16 and 9 bytes at BUF 8; every cut point t < stream length; extension "
               "by one arbitrary byte.  Detection of ALTERED bytes rests on the 64-bit check hash and is NOT claimed.",
        "not_encoded": "reduce_encode / reduce_decode (the 256-byte driver loops around the streaming interface); streams whose "
                       "decoding takes more than one refill in decode.*; writer/reader callbacks that fail or return short counts "
                       "other than at end of stream",
    },
    "assumptions": [
        "mir_hash_strict is replaced (include-guard pre-emption of mir-hash.h, harness/C12/c12.h) by a rotate-by-8/xor fold over "
        "seed, length and all bytes: the dictionary use only selects a bucket and the check-hash use only needs the same function "
        "on both sides; the real function's 64x64 multiplications on symbolic data give no verdict",
        "MIR_HASH_UNALIGNED_ACCESS = 0 (byte loop in _reduce_dict_find_longest) except in roundtrip.B16.U.* (thorough), which run "
        "the uint32_t-compare variant that x86-64 builds use",
        "under CBMC the union {encode, decode} in struct reduce_data is laid out as a struct (#define union struct around the "
        "include): CBMC rewrites the whole 2 KB union on every member store otherwise (out of memory).  Sound because no function "
        "of mir-reduce.h reads one member after writing the other; the native replay keeps the real union",
        "the one memcpy call of mir-reduce.h (back-reference copy) is redirected textually to a harness function that asserts the C "
        "preconditions of memcpy on buf[] indices and then copies with typed accesses (natively: calls the real memcpy under "
        "ASan first).  Paths are cut after the first violated precondition.  The 4th precondition asserted there - the source "
        "lies in the part of buf[] produced by this call - is stricter than C memory safety; it is what the encoder guarantees "
        "and what 'never trusts a damaged stream' needs (otherwise stale bytes of an earlier buffer are delivered)",
        "decode.contract.* and decode.copy-* are compiled with -DNDEBUG (release semantics: the library's assert()s are off); "
        "decode.contract.* assumes the copy preconditions (it is stated relative to decode.safety)",
        "the full-stream statement 'accepted => consumed MIR, elements, 0 tag, 8 bytes equal to the chained hash of exactly the "
        "delivered bytes, EOF' follows from decode.contract by induction over refills (argument in decode_contract.c), it is "
        "not a single query",
        "roundtrip/cut drive the decoder with one reduce_decode_get call per byte; between the calls the harness re-stores "
        "buf_bound/buf_get_pos/eof_p with the value they already have (case split) so that symbolic execution folds the "
        "buffered calls",
        "allocation never fails; one struct reduce_data per start call (asserted)",
    ],
}


def check(tier, only=None):
    obs = obligations(tier)
    if only:
        obs = [o for o in obs if only in o.name]
    return run_all("C12", tier, obs, "model_checking", META)
