"""C02 — every instruction computes its documented result (DESIGN.md section 3, C02).

Two legs over the same generated cases (tools/gen_c02.py: one MIR function per opcode / operand shape):
  interp.<case>       the REAL interpreter (eval) on the icode dumped from the real MIR_link + generate_icode
  gen.O<l>.<case>     the machine code the REAL generator emits at -O<l> (tools/mirgen-dump), lifted to C by
                      tools/x86lift.py (engine E3), run from the System V ABI entry state (harness/C02/gen.c)
Both are compared with ref/mir_ref.h for all operand values."""
import concurrent.futures as cf
import json
import os
import subprocess
import sys

from vlib import Ob, run_all, REPO, VERIF, run, set_prepare

MIRDUMP_CC = ["gcc", "-O1", "-w", "-DMIR_DIRECT_DISPATCH", "-I" + REPO]
TOOLS = os.path.join(VERIF, "tools")
GEN_LEVELS = {"quick": [2, 0, 1, 3], "thorough": [2, 0, 1, 3]}
# quick tier: -O1 and -O3 only for the cheap one-insn cases of these groups (the thorough tier runs every case at every level)
QUICK_13_GROUPS = ("int", "mem", "branch", "ovf")
SIG_CODE = {"i64": 1, "f": 2, "d": 3, "ld": 4}
DEFERRED = []


def build_mirdump(scratch, extra=()):
    exe = os.path.join(scratch, "mirdump" + "".join(e.replace("-D", "_").replace("=", "") for e in extra))
    if not os.path.exists(exe):
        rc, out, _ = run(MIRDUMP_CC + list(extra) + ["-o", exe, os.path.join(VERIF, "tools/mirdump.c"), "-lm", "-ldl", "-lpthread"], 300, 0)
        if rc != 0:
            raise RuntimeError("mirdump build failed: " + out[-2000:])
    return exe


def build_mirgen_dump(scratch):
    """tools/e3build.sh: the native dumper of engine E3, built from /repo's working tree (generator assertions on)."""
    exe = os.path.join(scratch, "mirgen-dump")
    if not os.path.exists(exe):
        rc, out, _ = run([os.path.join(TOOLS, "e3build.sh"), scratch], 600, 0)
        if rc != 0 or not os.path.exists(exe):
            raise RuntimeError("mirgen-dump build failed: " + out[-2000:])
    return exe


def dump_and_lift(exe, mir, level, out_json, out_c, extra=()):
    """Real generator at -O<level> on `mir` -> dump -> lifted C.  Raises with the tool's message on failure
    (a crash / failed gen_assert of the dump tool is the GENERATOR failing on this input: report it)."""
    with open(out_json, "w") as f:
        p = subprocess.run([exe, "-O%d" % level] + list(extra) + [mir], stdout=f, stderr=subprocess.PIPE, text=True)
    if p.returncode != 0:
        raise RuntimeError("mirgen-dump -O%d %s failed (rc=%s) - the real generator rejected or crashed on this input: %s"
                           % (level, mir, p.returncode, p.stderr[-1500:]))
    p = subprocess.run([sys.executable, os.path.join(TOOLS, "x86lift.py"), out_json, "-o", out_c], stdout=subprocess.PIPE,
                       stderr=subprocess.PIPE, text=True)
    if p.returncode != 0:
        raise RuntimeError("x86lift.py failed on %s (rc=%s): %s" % (out_json, p.returncode, p.stderr[-1500:]))
    return json.load(open(out_json))


def write_gen_map(dump, cases, path):
    """c02_gen_map.h: H_LIFT_<fid> = lifted function of case <fid>, H_SIG_<fid> = its dumped prototype (see gen.c)."""
    funcs = [r for r in dump["regions"] if r["kind"] == "func"]
    if len(funcs) != len(cases):
        raise RuntimeError("dump has %d functions, corpus has %d cases" % (len(funcs), len(cases)))
    lines = []
    for i, (c, f) in enumerate(zip(cases, funcs)):
        if f["name"] != "f_" + c["name"]:
            raise RuntimeError("function order of the dump differs from the corpus: %s vs %s" % (f["name"], c["name"]))
        sig = 0
        for r in f["proto"]["res"]:
            sig = sig * 16 + SIG_CODE[r]
        sig = sig * 16 + 15
        for a in f["proto"]["args"]:
            sig = sig * 16 + SIG_CODE[a["type"]]
        lines.append("#define H_LIFT_%d lift_%s\n#define H_SIG_%d 0x%xull" % (i, f["name"].replace(".", "_"), i, sig))
    with open(path, "w") as f:
        f.write("\n".join(lines) + "\n")


GEN_UNWINDSET = {"e3_enter.0": 17, "e3_enter.1": 17, "e3_enter.2": 65, "h_havoc_caller_saved.0": 17,
                 "memcpy.0": 10, "memcpy.1": 17, "memcmp.0": 66, "memset.0": 10, "memset.1": 17}


def gen_heavy(c):
    """cases whose formula has a multiplier / divider on both sides: SMT back end (measured: SAT back ends give no verdict).
    fp arithmetic and conversions (same IEEE operator on both sides): z3 with the floating-point theory (--fpa): measured
    DADD 4.8 s, FDIV 5 s, LDMUL 69 s, against no verdict in 170 s for MiniSat / CaDiCaL / bit-blasted z3 on doubles"""
    n = c["name"]
    return c["heavy"] or any(k in n for k in ("MUL", "DIV", "MOD"))


def gen_obs(tier, scratch, cases):
    exe = build_mirgen_dump(scratch)
    mir = os.path.join(scratch, "c02.mir")
    levels = GEN_LEVELS[tier]

    def one(level):
        return dump_and_lift(exe, mir, level, os.path.join(scratch, "c02_O%d.json" % level), os.path.join(scratch, "c02_O%d.c" % level))

    with cf.ThreadPoolExecutor(len(levels)) as ex:
        dumps = list(ex.map(one, levels))
    write_gen_map(dumps[0], cases, os.path.join(scratch, "c02_gen_map.h"))
    for d in dumps[1:]:  # same function order / prototypes at every level
        if [r["name"] for r in d["regions"] if r["kind"] == "func"] != [r["name"] for r in dumps[0]["regions"] if r["kind"] == "func"]:
            raise RuntimeError("function order differs between optimisation levels")
    obs = []
    for level in levels:
        lifted = os.path.join(scratch, "c02_O%d.c" % level)
        for c in cases:
            if c.get("gen_only") and level != 2 and tier != "thorough":
                continue  # constant folding is an -O2/-O3 transformation: quick tier runs these at -O2 only
            if tier != "thorough" and level in (1, 3) and (c["group"] not in QUICK_13_GROUPS or gen_heavy(c)):
                continue
            if c["name"].startswith("fp3i_"):
                continue  # fp immediates become literal-pool data items: the gen runner maps no module data (C01 does); the link-time
                          # lowering these cases are about is shared by both engines and is decided on the interpreter leg
            uw = dict(GEN_UNWINDSET)
            uw[c["entry"] + ".0"] = 13
            heavy = gen_heavy(c)
            fp_arith = c["name"].startswith(("fp3_", "cv_"))
            obs.append(Ob("gen.O%d.%s" % (level, c["name"]), "C02/gen.c", defs=['E3_LIFTED="%s"' % lifted],
                          cc=["-I" + scratch, "-I" + TOOLS, "-I" + os.path.join(VERIF, "harness/E3")], entry=c["entry"],
                          unwindset=uw, unwind=4, checks="functional", timeout=600 if (heavy or fp_arith) else 300,
                          solver="z3" if (heavy or fp_arith) else None, flags=["--fpa"] if fp_arith else [],
                          sample="generated code -O%d: %s" % (level, c["sample"])))
    return obs


def prepare(tier, scratch):
    rc, out, _ = run([sys.executable, os.path.join(VERIF, "tools/gen_c02.py"), scratch, tier], 120, 0)
    if rc != 0:
        raise RuntimeError("gen_c02 failed: " + out)
    exe = build_mirdump(scratch)
    with open(os.path.join(scratch, "c02_dump.h"), "w") as f:
        p = subprocess.run([exe, os.path.join(scratch, "c02.mir")], stdout=f, stderr=subprocess.PIPE, text=True)
    if p.returncode != 0:
        raise RuntimeError("mirdump failed on the generated corpus: " + p.stderr[-2000:])
    cases = json.load(open(os.path.join(scratch, "c02_cases.json")))
    # interpreter leg: one dump per group of 24 functions (small static data: CBMC can print counterexample traces)
    for grp in sorted(set(c["interp_group"] for c in cases)):
        with open(os.path.join(scratch, "c02_dump_g%d.h" % grp), "w") as f:
            p = subprocess.run([exe, os.path.join(scratch, "c02_g%d.mir" % grp)], stdout=f, stderr=subprocess.PIPE, text=True)
        if p.returncode != 0:
            raise RuntimeError("mirdump failed on corpus group %d: %s" % (grp, p.stderr[-2000:]))
    obs = []
    del DEFERRED[:]
    for c in cases:
        solver, timeout = ("z3", 900) if c["heavy"] else (None, 300)
        n = c["name"]
        if c.get("gen_only"):
            continue  # both operands constant: the interpreter does not fold; these cases exist for the generator's constant folding
        if n.startswith("i3m_") and any(k in n for k in ("MUL", "DIV", "MOD")) and os.environ.get("VERIF_DEEP") != "1":
            # memory-operand shapes of the multipliers/dividers: the interpreter sees them only after simplification has split
            # them into loads/stores + the register form (decided by interp.i3_*); rmr/rrm gave no verdict in 900 s.  The
            # generated-code leg, where memory-operand patterns are selected, keeps them.
            DEFERRED.append("interp." + n)
            continue
        if n.startswith("i3_") and any(k in n for k in ("MUL", "DIV", "MOD")):
            solver = "z3"  # also the immediate shapes: MiniSat gave no verdict in 300 s for mul/muls by -1 and by 0x7fffffff
        if n.startswith("fp3i_"):
            solver, timeout = "cadical", 600
            if "DIV_a" in n and not n.endswith(("_a0p0", "_am0p0")) and os.environ.get("VERIF_DEEP") != "1":
                DEFERRED.append("interp." + n)  # constant / x with a non-zero constant: a full divider, no verdict in 600 s (measured)
                continue
        if n.startswith(("fp3_", "cv_")):
            # fp arithmetic / conversions through the interpreter: the operands live in the MIR_val_t union, so cbmc --fpa is not
            # usable ("flatten2bv of a non-constant FPA-encoded float is unsupported") and bit-blasted z3 gave no verdict in 900 s
            # for DMUL, DDIV, LDADD, LDSUB (FMUL 152 s, FDIV 222 s).  SAT (CaDiCaL) on CBMC's float encoding instead; the
            # double / long double multipliers and dividers and long double adders only in the thorough tier.
            solver, timeout = "cadical", 600
            if n in ("fp3_FMUL", "fp3_FDIV"):  # measured under load: z3 152 s / 222 s, CaDiCaL 172 s / no verdict in 600 s
                solver, timeout = "z3", 900
            if n in ("fp3_DMUL", "fp3_DDIV") or n.startswith("fp3_LD"):
                if os.environ.get("VERIF_DEEP") != "1":  # no verdict measured with any back end: not part of either registered tier
                    DEFERRED.append("interp." + n)
                    continue
                timeout = 3600
        if c["heavy"] and c["group"] == "ovf" and os.environ.get("VERIF_DEEP") != "1":
            # mulo/umulo (+S) followed by bo/bno through the interpreter: 128-bit product on both sides, --paths + z3: no verdict within
            # 10 minutes per case under load (measured); thorough tier only.  The *_imm1 shapes (finding F5) are not heavy and stay.
            DEFERRED.append("interp." + n)
            continue
        if n.endswith("_imm1") and c["group"] == "ovf":
            timeout = 900  # known finding F5: the counterexample trace through the interpreter state takes CBMC minutes to build
        obs.append(Ob("interp." + n, "C02/interp.c", defs=["MIR_DIRECT_DISPATCH", 'H_DUMP="c02_dump_g%d.h"' % c["interp_group"], 'H_CASES="c02_cases_g%d.h"' % c["interp_group"]],
                      cc=["-I" + scratch], entry=c["entry"],
                      loops={"eval#0": 34 if c["group"] in ("memov", "memop") else 14}, unwind=12, checks="functional", timeout=timeout,
                      # h.h's bounded memcpy/memcmp/memset loops (the case code compares 64..96-byte buffers); "function#k" loop names
                      # cannot be resolved in entry-selected binaries (no main), so CBMC loop ids are given directly
                      unwindset={"memcmp.0": 98, "memcpy.0": 14, "memcpy.1": 98, "memset.0": 14, "memset.1": 98, c["entry"] + ".0": 14},
                      solver=solver, object_bits=12,
                      paths=(c["group"] in ("branch", "ovf") or n.startswith("fpb_")),
                      sample="interpreter: " + c["sample"]))
    META["bounds"]["interpreter_leg_obligations_without_verdict_excluded (VERIF_DEEP=1 adds them; the generated-code leg decides the same opcodes)"] = list(DEFERRED)
    obs += gen_obs(tier, scratch, cases)
    # the few long-running obligations (mul/div, fp arithmetic, long double) first, so that they overlap with the many short ones
    obs.sort(key=lambda o: 0 if (o.solver in ("z3", "cadical") or o.timeout > 300) else 1)
    return obs


META = {
    "bounds": {"program": "one MIR instruction (plus the ret / branch scaffolding) per obligation", "operands": "all 64-bit / all float, double, x87 bit patterns",
               "immediates": "boundary grid (compile-time constants)", "memory": "64-byte buffer, index in [-2,2]",
               "generated_code_levels": "quick: -O2 and -O0 for every case (constant-fold family: -O2 only), plus -O1 and -O3 for the non-heavy cases of the groups int, mem, branch, ovf; thorough: -O0..-O3 (every case at every level)",
               "generated_code_entry_state": "all 16 GPRs, xmm0-15 (both halves), flags and the caller's stack words symbolic; "
                                             "arguments placed per System V from the dumped prototype; x87 stack empty"},
    "assumptions": ["undefined cases assumed away per MIR.md: division by zero, INT_MIN/-1, shift count >= width, float->int out of range",
                    "32-bit (S) results compared on the low 32 bits only",
                    "interpreter built with the repo's MIR_DIRECT_DISPATCH switch (computed-goto label table outside the claim)",
                    "icode obtained natively from the real MIR_link + generate_icode (tools/mirdump.c); context built by hand (no MIR_init)",
                    "gen leg: machine code obtained natively from the real MIR_load_module/MIR_link/MIR_gen (tools/mirgen-dump, generator "
                    "assertions enabled) and translated to C by tools/x86lift.py; trusted: GNU objdump as decoder, x86lift.py + lift_rt.h "
                    "(validated natively against the real bytes by tools/e3validate.py, not part of this check)",
                    "gen leg: the builtins mir.ui2f, mir.ui2d, mir.ui2ld, mir.ld2i called by generated code are modelled in x86_call by "
                    "their C semantics ((float)/(double)/(long double) of a uint64_t, (int64_t) of a long double); the call sequence "
                    "(argument/result locations, rsp alignment, caller-saved state havocked) is checked, the builtin body is gcc's",
                    "gen leg: MXCSR and the x87 control word at their ABI defaults (round to nearest, 64-bit precision); "
                    "AF/DF, alignment faults and x87 stack faults not modelled",
                    "gen leg: long double is CBMC's IEEE binary128 on all sides (lifted code, reference); results are compared between "
                    "C long double expressions, not against x87 hardware rounding; ld load/store cases move 16-byte cells",
                    "gen leg: the fake addresses mirgen-dump gives to builtins replace the production addresses (only the 8-byte "
                    "constant of the call sequence differs)",
                    "gen leg extra assertions per case: exit by ret to the caller's return address, rsp restored, rbx/rbp/r12-r15 "
                    "preserved, x87 depth equals the number of long double results, prototype as dumped equals the runner's"],
}


def check(tier, only=None):
    set_prepare(prepare)
    return run_all("C02", tier, None, "model_checking", META, only=only)
