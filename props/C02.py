"""C02 — every instruction computes its documented result (DESIGN.md section 3, C02)."""
import json
import os
import subprocess
import sys

from vlib import Ob, run_all, REPO, VERIF, run, set_prepare

MIRDUMP_CC = ["gcc", "-O1", "-w", "-DMIR_DIRECT_DISPATCH", "-I" + REPO]


def build_mirdump(scratch, extra=()):
    exe = os.path.join(scratch, "mirdump" + "".join(e.replace("-D", "_").replace("=", "") for e in extra))
    if not os.path.exists(exe):
        rc, out, _ = run(MIRDUMP_CC + list(extra) + ["-o", exe, os.path.join(VERIF, "tools/mirdump.c"), "-lm", "-ldl", "-lpthread"], 300, 0)
        if rc != 0:
            raise RuntimeError("mirdump build failed: " + out[-2000:])
    return exe


def prepare(tier, scratch):
    rc, out, _ = run([sys.executable, os.path.join(VERIF, "tools/gen_c02.py"), scratch, tier], 120, 0)
    if rc != 0:
        raise RuntimeError("gen_c02 failed: " + out)
    exe = build_mirdump(scratch)
    with open(os.path.join(scratch, "c02_dump.h"), "w") as f:
        p = subprocess.run([exe, os.path.join(scratch, "c02.mir")], stdout=f, stderr=subprocess.PIPE, text=True)
    if p.returncode != 0:
        raise RuntimeError("mirdump failed on the generated corpus: " + p.stderr[-2000:])
    cases = json.load(open(os.path.join(scratch, "c02_cases.json")))
    obs = []
    for c in cases:
        obs.append(Ob("interp." + c["name"], "C02/interp.c", defs=["MIR_DIRECT_DISPATCH"], cc=["-I" + scratch], entry=c["entry"],
                      loops={"eval#0": 14}, unwind=12, checks="functional", timeout=900 if c["heavy"] else 300,
                      solver="cadical" if c["heavy"] else None, object_bits=10,
                      sample="interpreter: " + c["sample"]))
    return obs


META = {
    "bounds": {"program": "one MIR instruction (plus the ret / branch scaffolding) per obligation", "operands": "all 64-bit / all float, double, x87 bit patterns",
               "immediates": "boundary grid (compile-time constants)", "memory": "64-byte buffer, index in [-2,2]"},
    "assumptions": ["undefined cases assumed away per MIR.md: division by zero, INT_MIN/-1, shift count >= width, float->int out of range",
                    "32-bit (S) results compared on the low 32 bits only",
                    "interpreter built with the repo's MIR_DIRECT_DISPATCH switch (computed-goto label table outside the claim)",
                    "icode obtained natively from the real MIR_link + generate_icode (tools/mirdump.c); context built by hand (no MIR_init)"],
}


def check(tier, only=None):
    set_prepare(prepare)
    return run_all("C02", tier, None, "model_checking", META, only=only)
