"""C08 - c2mir lays out and passes data as the System V x86-64 ABI does (DESIGN.md section 3, C08).

One obligation = one CBMC query over the real set_type_layout/... (mode "layout") or the real classify_arg/...
(mode "pass") for ALL declarations of one shape class: number of outer members (concrete), enabled features
(symbolic inside the class), struct/union.  The oracle is ref/sysv_ref.h (validated against gcc by
ref/sysv_ref_selftest.py, which setup_cmd runs)."""
import os
from vlib import Ob, run_all, REPO

F_BF, F_SUBARR, F_DEEP = 1, 2, 4
ARITH, PTR, ENUM, NESTED, ANON, NESTED_U, ANON_U, ARR = 0, 1, 2, 3, 4, 5, 6, 8
AGGR = (NESTED, ANON, NESTED_U, ANON_U)
CLS_NAME = {ARITH: "T", PTR: "P", ENUM: "E", NESTED: "S", ANON: "As", NESTED_U: "U", ANON_U: "Au"}
CLS_DESC = {ARITH: "any arithmetic type", PTR: "void *", ENUM: "enum", NESTED: "nested struct", ANON: "anonymous struct",
            NESTED_U: "nested union", ANON_U: "anonymous union"}
TOP_NAME = {0: "struct", 1: "union"}
KINDS = "_Bool, char, signed char, unsigned char, short, unsigned short, int, unsigned, long, unsigned long, long long, " \
        "unsigned long long, float, double, long double"


KC_ANY, KC_C, KC_B, KC_S, KC_I, KC_L, KC_F, KC_D, KC_LD = range(9)
KC_NAME = {KC_ANY: "any", KC_C: "c", KC_B: "b", KC_S: "s", KC_I: "i", KC_L: "l", KC_F: "f", KC_D: "d", KC_LD: "ld"}
KC_SIZE = {KC_ANY: 1, KC_C: 1, KC_B: 1, KC_S: 2, KC_I: 4, KC_L: 8, KC_F: 4, KC_D: 8, KC_LD: 16}
KC_DESC = {KC_ANY: "any arithmetic type", KC_C: "char/signed char/unsigned char", KC_B: "_Bool", KC_S: "short/unsigned short",
           KC_I: "int/unsigned", KC_L: "long/unsigned long/long long/unsigned long long", KC_F: "float", KC_D: "double",
           KC_LD: "long double"}


def loops(n, nsub, scan):
    m = n + 1
    g = max(m, nsub + 1, 3)
    return {"h_build_graph#0": g, "h_build_graph#1": g, "h_build_graph#2": g, "h_nd_description#0": g, "h_nd_description#1": g, "h_nd_description#2": g,
            "h_nd_description#3": g, "h_mk_aggr#0": g, "h_mk_aggr#1": g,
            "sv_layout#0": max(m, nsub + 1), "h_has_named#0": max(m, nsub + 1),
            **{"harness#%d" % k: max(m, nsub + 1, 3) for k in range(8)},
            "sv_classify_agg#0": max(m, nsub + 1), "sv_classify_agg#1": 4, "sv_classify_agg#2": 4, "sv_pass_arg#0": 3, "sv_pass_arg#1": 3,
            "set_type_layout#0": max(m, nsub + 1, 3), "aux_set_type_align#0": max(m, nsub + 1, 3), "update_members_offset#0": max(nsub + 1, 3),
            "incomplete_type_p#0": 2, "DLIST_node_t_el#0": 5, "DLIST_node_t_el#1": 5,
            "update_field_layout#0": scan,
            "classify_arg#0": 3, "classify_arg#1": 3, "classify_arg#2": max(m, nsub + 1), "classify_arg#3": 3, "classify_arg#4": 3,
            "process_ret_type#0": 3, "process_aggregate_arg#0": 3, "get_blk_type#0": 3}


def member_name(c, k, ksub):
    cls = c & 7
    if cls == ARITH:
        nm = KC_NAME[k]
    elif cls in AGGR:
        nm = CLS_NAME[cls] + "{" + ",".join(KC_NAME[x] for x in ksub) + "}"
    else:
        nm = CLS_NAME[cls]
    return nm + ("[]" if c & ARR else "")


def member_desc(c, k, ksub):
    cls = c & 7
    if cls == ARITH:
        d = KC_DESC[k]
    elif cls in AGGR:
        d = CLS_DESC[cls] + " { " + "; ".join(KC_DESC[x] for x in ksub) + " }"
    else:
        d = CLS_DESC[cls]
    return d + (" [1..%d]" % (2 if cls in AGGR else 3) if c & ARR else "")


def witness_defs(mode, shape, kcls, feat, top, nsub, excl, maxsize, ksub=()):
    """Which reachability witnesses exist for this (concrete) shape: only those some declaration of the shape reaches."""
    n = len(shape)
    cls = [c & 7 for c in shape]
    arr = [bool(c & ARR) for c in shape]
    intk = [kcls[i] in (KC_ANY, KC_C, KC_B, KC_S, KC_I, KC_L) for i in range(n)]
    bfcap = [bool(feat & F_BF) and ((cls[i] == ARITH and intk[i]) or cls[i] == ENUM) and not arr[i] for i in range(n)]
    d = {}
    if mode == 0:
        d["H_W_BF"] = any(bfcap) and n >= 2
        # two adjacent bit-fields of which the second can overflow the unit of its type
        esz = [4 if cls[i] == ENUM else KC_SIZE[kcls[i]] for i in range(n)]
        d["H_W_BF2"] = any(bfcap[i] and bfcap[i + 1] and kcls[i + 1] != KC_B
                           and (not excl & 4 or kcls[i] == KC_ANY or kcls[i + 1] == KC_ANY or esz[i + 1] <= esz[i])
                           for i in range(n - 1))
        d["H_W_ARR"] = any(arr)
        d["H_W_NESTED"] = NESTED in cls or NESTED_U in cls
        d["H_W_ANON"] = ANON in cls or ANON_U in cls
        d["H_W_DEEP"] = bool(feat & F_DEEP) and (NESTED in cls or ANON in cls)
    else:
        # leaf members: (size class, can be a bit-field, array)
        leaves, simple = [], True
        for i in range(n):
            if cls[i] == ARITH:
                leaves.append((kcls[i], bfcap[i], arr[i]))
            elif cls[i] in (PTR, ENUM):
                leaves.append((KC_L if cls[i] == PTR else KC_I, bfcap[i], arr[i]))
            else:
                simple = False
        anyk = any(k == KC_ANY for k, _, _ in leaves)
        has_ld = any(k == KC_LD for k, _, _ in leaves)
        if simple and not anyk:
            def place(min_p):
                pos = mx = 0
                for k, bf, ar in leaves:
                    sz = KC_SIZE[k]
                    if top == 1:
                        pos = 0
                    if min_p and bf:
                        pos += 1
                    else:
                        pos = (pos + sz * 8 - 1) // (sz * 8) * (sz * 8) + sz * 8 * (1 if not ar else (1 if min_p else 3))
                    mx = max(mx, pos)
                al = max(KC_SIZE[k] for k, _, _ in leaves)
                return ((mx + 7) // 8 + al - 1) // al * al
            minsz, maxsz = place(True), place(False)
            ld_mix = has_ld and len(leaves) > 1 and not (top == 1 and all(k == KC_LD for k, _, _ in leaves))
            d["H_W_REG"] = minsz <= 16 and not ld_mix
            d["H_W_MEM"] = (16 < maxsz <= maxsize) or (ld_mix and maxsz <= maxsize)
            plain2 = n == 2 and top == 0 and not any(arr)
            d["H_W_SS"] = plain2 and all(k in (KC_F, KC_D) for k, _, _ in leaves) and maxsz > 8
            d["H_W_X87"] = has_ld and not ld_mix and not any(ar for _, _, ar in leaves)
        else:
            # a nested/anonymous aggregate with a long double member next to anything else is class MEMORY
            d["H_W_REG"] = not has_ld and not (KC_LD in ksub and any(c in AGGR for c in cls))
    return ["%s=%d" % (k, 1 if v else 0) for k, v in d.items()]


def ob(mode, shape, kcls, top, ksub=(KC_C, KC_L), feat=F_BF, excl=0, maxsize=None, timeout=900, solver="cadical", tag=""):
    n = len(shape)
    nsub = len(ksub)
    kcls = list(kcls)
    sizes = []
    for i, c in enumerate(shape):
        cls = c & 7
        sizes += [KC_SIZE[kcls[i]]] if cls == ARITH else [8] if cls == PTR else [4] if cls == ENUM else [KC_SIZE[x] for x in ksub]
    mina = min(sizes)
    if maxsize is None:
        # keeps update_field_layout's backward scan (steps of the member alignment) at about 16 steps, but large
        # enough for the declaration without bit-fields and with one-element arrays
        def agg_size(szs, union):
            pos = mx = 0
            for z in szs:
                pos = 0 if union else (pos + z - 1) // z * z
                pos += z
                mx = max(mx, pos)
            al = max(szs)
            return (mx + al - 1) // al * al, al
        msz = []
        for i, c in enumerate(shape):
            cls = c & 7
            if cls in AGGR:
                z, al = agg_size([KC_SIZE[x] for x in ksub], cls in (NESTED_U, ANON_U))
                msz.append((z, al))
            else:
                z = KC_SIZE[kcls[i]] if cls == ARITH else 8 if cls == PTR else 4
                msz.append((z, z))
        pos = mx = 0
        for z, al in msz:
            pos = 0 if top == 1 else (pos + al - 1) // al * al
            pos += z
            mx = max(mx, pos)
        al = max(a for _, a in msz)
        need = (mx + al - 1) // al * al
        maxsize = min(64, max(16 * mina, need))
    scan = maxsize // mina + 4
    name = "%s.%s.%s%s%s%s" % ("layout" if mode == 0 else "pass", TOP_NAME[top],
                                "-".join(member_name(shape[i], kcls[i], ksub) for i in range(n)),
                                "" if feat & F_BF else ".nobf", ".subarr" if feat & F_SUBARR else "", tag)
    what = {0: "sizeof, _Alignof, offset of every member, absolute bit position/width of every named bit-field",
            1: "classify_arg eightbyte classes, MIR block type, hidden-pointer return, result registers, argument "
               "registers for every count of registers already used"}[mode]
    members = "; ".join(member_desc(shape[i], kcls[i], ksub) for i in range(n))
    bf = ""
    if feat & F_BF:
        bf = ", integer/enum members optionally bit-fields of every width" + \
             {0: " incl. unnamed and zero-width", 1: " (named, or unnamed of width 0)", 2: " (named or unnamed, width > 0)",
              3: " (named only)", 7: " (named only, none directly after a bit-field of a narrower declared type)"}[excl]
    return Ob(name, "C08/layout.c",
              defs=["H_MODE=%d" % mode, "H_N=%d" % n, "H_SHAPE={%s}" % ",".join(str(c) for c in shape),
                    "H_KCLS={%s}" % ",".join(str(k) for k in kcls), "H_KSUB={%s}" % ",".join(str(k) for k in ksub),
                    "H_FEAT=%d" % feat, "H_EXCL=%d" % excl, "H_TOP=%d" % top, "H_NSUB=%d" % nsub, "H_MAXSIZE=%d" % maxsize]
                   + witness_defs(mode, shape, kcls, feat, top, nsub, excl, maxsize, ksub),
              loops=loops(n, nsub, scan), unwind=8, checks="functional", object_bits=12, timeout=timeout, solver=solver,
              native_cc=[os.path.join(REPO, "mir.c")],
              sample="every %s { %s }%s%s; sizeof <= %d: %s"
                     % (TOP_NAME[top], members, bf, " (first member of nested aggregates an array)" if feat & F_SUBARR else "",
                        maxsize, what))


# Recorded findings (see harness/C08/proposed-fixes.diff): 1 leading zero-width bit-field occupies a unit, 2 unnamed
# bit-fields raise the alignment / take a whole unit, 3 bit-field after a bit-field of a narrower type misplaced,
# 4 classify_arg makes the eightbyte of a zero-width bit-field INTEGER.  Findings repaired in /repo are no longer
# excluded from the re-proofs (their .finding-* obligations stay as regression obligations and must hold);
# set to () to check a tree without the fixes.
FIXED_IN_REPO = (1, 3, 4)


def obligations(tier):
    T, P, E, S, A, U, AU = ARITH, PTR, ENUM, NESTED, ANON, NESTED_U, ANON_U
    C, B, SH, I, L, F, D, LD, ANY = KC_C, KC_B, KC_S, KC_I, KC_L, KC_F, KC_D, KC_LD, KC_ANY
    quick = tier == "quick"
    to = 600 if quick else 1500
    obs = []
    # --- the two recorded layout findings, smallest shape that shows each (expected: violated / known) ---
    obs.append(ob(0, [T, T], [I, I], 0, excl=1, timeout=to, tag=".finding-zero-width-bit-field"))
    # finding 2, the only one left open: its two faces (width > 0 / width 0 after the fix of finding 1)
    obs.append(ob(0, [T, T], [C, I], 0, excl=2, timeout=to, tag=".finding-unnamed-bit-field"))
    obs.append(ob(0, [T, T], [C, I], 0, excl=1, timeout=to, tag=".finding-unnamed-bit-field-zero-width"))
    obs.append(ob(0, [T, T, T], [C, I, L], 0, excl=3, timeout=to, tag=".finding-bit-field-after-narrower-unit"))
    obs.append(ob(1, [T, T], [D, I], 0, excl=0, timeout=to, tag=".finding-zero-width-bit-field-classified-INTEGER"))
    for mode in (0, 1):
        # layout: re-proved without the recorded layout findings (named bit-fields only); passing: assumes equal layout
        # anyway, re-proved without zero-width bit-fields (recorded finding: classify_arg makes their eightbyte INTEGER)
        # (unnamed bit-fields of every width stay excluded from the layout re-proofs because of finding 2)
        ex = 3 if mode == 0 else (0 if 4 in FIXED_IN_REPO else 2)
        tg = ".named-bf" if mode == 0 else ("" if 4 in FIXED_IN_REPO else ".no-zero-width")
        # one member: type fully symbolic
        for top in (0, 1):
            obs.append(ob(mode, [T], [ANY], top, excl=ex, maxsize=64, timeout=to, tag=tg))
            obs.append(ob(mode, [T | ARR], [ANY], top, excl=ex, maxsize=64, timeout=to, tag=tg))
            for sh in (([P], [E], [S], [AU]) if mode == 0 else ([P],) if top == 0 else ([AU],)) if quick else \
                      ([P], [E], [S], [A], [U], [AU], [S | ARR], [P | ARR]):
                if mode == 1 and sh == [S | ARR]:
                    continue   # passing of an array of nested structs: the SAT back end ends with an ERROR status (memory) - no verdict, layout mode keeps the shape
                obs.append(ob(mode, sh, [ANY], top, excl=ex, timeout=to, tag=tg))
        # two members: every pair of size classes
        classes = [C, I, L, D, LD] if quick else [C, B, SH, I, L, F, D, LD]
        for a in classes:
            for b in classes:
                for top in (0, 1):
                    if quick and top == 1 and a != b and (a, b) not in ((I, LD), (L, D), (C, L)):
                        continue
                    if not quick and top == 1 and (a > b or B in (a, b) or F in (a, b)):
                        continue   # union members all start at 0: one order, without the classes of equal size
                    obs.append(ob(mode, [T, T], [a, b], top, excl=ex, timeout=to, tag=tg))
        for top in (0, 1):
            for sh, kc in (([T | ARR, T], [C, I]), ([T, T | ARR], [I, D]), ([T, P], [I, ANY]), ([E, T], [ANY, C]),
                           ([T, S], [I, ANY]), ([U, T], [ANY, I]), ([T, A], [C, ANY]), ([AU, T], [ANY, L])):
                if quick and mode == 1 and (top == 1 or (sh[0] & 7) in AGGR + (ENUM,) or (sh[1] & 7) in AGGR):
                    continue   # thorough tier (passing obligations with a nested aggregate next to another member: minutes)
                obs.append(ob(mode, sh, kc, top, excl=ex, timeout=to, tag=tg))
        # three / four members
        ex3 = (3 if 3 in FIXED_IN_REPO else 7) if mode == 0 else ex
        triples = [[C, I, L], [L, C, D]] if quick else \
                  [[C, I, L], [I, I, I], [L, C, D], [C, C, C], [I, C, I], [L, I, C], [D, F, F], [LD, C, L], [SH, C, I], [B, I, B],
                   [I, L, I], [C, SH, L], [F, I, F], [L, L, L]]
        for kc in triples:
            for top in (0, 1) if not quick else (0,):
                obs.append(ob(mode, [T, T, T], kc, top, excl=ex3, timeout=to, tag=tg))
        if not quick:
            for top in (0, 1):
                for sh, kc in (([T, S, T], [C, ANY, I]), ([T, AU, T], [I, ANY, C]), ([T, T | ARR, T], [C, I, L]),
                               ([S, T, T], [ANY, C, I]), ([T, T, A], [I, C, ANY]), ([T, S | ARR], [I, ANY])):
                    if mode == 1 and (sh == [T, S | ARR] or (sh == [T, S, T] and top == 0)):
                        continue   # no verdict (solver ERROR status, measured); the layout obligations of the same shapes hold
                    obs.append(ob(mode, sh, kc, top, excl=ex3, timeout=to, tag=tg))
                for kc in ([C, I, C, L], [I, I, I, I], [C, SH, I, L]):
                    obs.append(ob(mode, [T, T, T, T], kc, top, excl=ex3, timeout=to, tag=tg))
                for ks in ((I, I), (L, C), (D, I), (LD, C)):
                    obs.append(ob(mode, [T, S], [C, ANY], top, ksub=ks, excl=ex, timeout=to, tag=tg))
                    obs.append(ob(mode, [AU, T], [ANY, I], top, ksub=ks, excl=ex, timeout=to, tag=tg))
                obs.append(ob(mode, [T, S], [I, ANY], top, feat=F_BF | F_SUBARR, excl=ex, timeout=to, tag=tg))
        elif mode == 0:
            obs.append(ob(mode, [T, AU, T], [I, ANY, C], 0, excl=ex3, timeout=to, tag=tg))
        if mode == 0:
            # second-level anonymous struct {int/unsigned; char} as the last member of the nested / anonymous aggregate (no bit-fields)
            deep = [([T, A], [I, ANY]), ([T, AU], [C, ANY]), ([T, S], [I, ANY])] + ([] if quick else [([A, T], [ANY, C]), ([T, U], [L, ANY]), ([AU, T], [ANY, I])])
            for sh, kc in deep:
                for top in ((0,) if quick else (0, 1)):
                    obs.append(ob(mode, sh, kc, top, ksub=(I, L), feat=F_DEEP, maxsize=64, timeout=to, tag=".deep-anon"))
    return obs


def check(tier, only=None):
    obs = obligations(tier)
    if only:
        obs = [o for o in obs if only in o.name]
    meta = {
        "bounds": {
            "shape (concrete per obligation)": "outer struct or union with 1..%s members; per member its category: arithmetic "
                "type, void *, enum, nested struct/union, anonymous struct/union, each optionally an array; for 2 and more "
                "members the SIZE CLASS of each arithmetic member (char-sized, _Bool, short, int, long-sized, float, double, "
                "long double) - quick: all pairs over {char, int, long, double, long double} for structs (a selection for "
                "unions), 2 triples; thorough: all pairs over the 8 classes, 14 triples, 3 quadruples, more nested shapes"
                % ("3" if tier == "quick" else "4"),
            "symbolic inside an obligation": "which type of the size class (%s), for every integer/enum member whether it is "
                "a bit-field, its width 0..bits(type) (_Bool 0..1 as gcc accepts), named or unnamed (zero width only unnamed), "
                "array length 1..3 (arrays of aggregates 1..2), the types/bit-fields of the members of nested aggregates "
                "(their size classes fixed: char-sized and long-sized; thorough adds int/int, long/char, double/int, "
                "long double/char), enum basic type int/unsigned/undefined, 0..6 general and 0..8 SSE argument registers "
                "already used" % KINDS,
            "sizeof": "<= min(64, max(16 * smallest member size, size of the declaration without bit-fields)); this keeps "
                      "update_field_layout's backward scan within the per-loop unwinding bound (unwinding assertions on)",
            "nesting": "depth 2 (members of nested/anonymous aggregates are arithmetic types, bit-fields or (thorough) arrays)",
            "re-proofs": "layout obligations named .named-bf exclude unnamed bit-fields of every width (open finding 2: they "
                         "raise the alignment / take a whole unit; shown by the two .finding-unnamed-bit-field* obligations); "
                         "the other .finding-* obligations are the regression obligations of the repaired findings 1, 3, 4 "
                         "(FIXED_IN_REPO in props/C08.py; on a tree without the fixes they are violated and the re-proofs "
                         "would additionally have to exclude them)",
        },
        "assumptions": [
            "no c2mir_init: the type/node/decl graph is built by the harness in the state check() leaves before "
            "create_decl calls set_type_layout (all raw_size = MIR_SIZE_MAX, align = -1, decl offset 0, bit_offset -1); "
            "curr_scope = NULL (the declaration is complete, we are not inside it); n_errors = 0; member lists linked by "
            "hand with the links NL_APPEND produces",
            "CBMC build only: the unions of the c2mir TU (struct node.u, struct type.u, struct expr.c, ...) are given "
            "struct layout (#define union struct); exact for the encoded functions because they never read a union member "
            "other than the one last written (read by type->mode / .ops of list nodes / i_val for array sizes, u_val for "
            "widths, the harness writes both); counterexamples are replayed natively against the real unions",
            "natural alignment only: no _Alignas, no packed/aligned attributes (c2mir has none)",
            "every aggregate has at least one member that is not an unnamed bit-field (empty aggregates are a GNU extension)",
            "passing obligations are proved for the declarations on which the layout obligations' equalities hold "
            "(H_ASSUME); layout deviations are reported by the layout obligations only",
            "passing: declarations with an unnamed bit-field inside a union, or an unnamed non-zero-width bit-field "
            "inside a nested aggregate, are left out (psABI gives no rule, gcc's behaviour depends on machine modes; "
            "see ref/sysv_ref.h); an eightbyte consisting of padding only is left out",
            "the oracle models gcc >= 12 (zero-width bit-fields ignored by the classification, psABI clarification of 2021) "
            "and is cross-checked against the installed gcc by ref/sysv_ref_selftest.py (layout, argument registers/stack, "
            "result registers/hidden pointer on generated declarations)",
            "what is compared is the DECISION (classes, block type, registers, hidden pointer, register width covers the "
            "bytes); the MIR-level moves that implement a chosen block type are C05/C06, the code gen() emits for member "
            "accesses is outside C08's encoding",
            "enum: values fit int or unsigned (c2mir basic type TP_INT/TP_UINT, or the undefined-enum default)",
        ],
    }
    return run_all("C08", tier, obs, "model_checking", meta)
