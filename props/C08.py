"""C08 - c2mir lays out and passes data as the System V x86-64 ABI does (DESIGN.md section 3, C08).

One obligation = one CBMC query over the real set_type_layout/... (mode "layout") or the real classify_arg/...
(mode "pass") for ALL declarations of one shape class: number of outer members (concrete), enabled features
(symbolic inside the class), struct/union.  The oracle is ref/sysv_ref.h (validated against gcc by
ref/sysv_ref_selftest.py, which setup_cmd runs)."""
import os
from vlib import Ob, run_all, REPO

F_BF, F_SUBARR = 1, 2
ARITH, PTR, ENUM, NESTED, ANON, NESTED_U, ANON_U, ARR = 0, 1, 2, 3, 4, 5, 6, 8
AGGR = (NESTED, ANON, NESTED_U, ANON_U)
CLS_NAME = {ARITH: "T", PTR: "P", ENUM: "E", NESTED: "S", ANON: "As", NESTED_U: "U", ANON_U: "Au"}
CLS_DESC = {ARITH: "any arithmetic type", PTR: "void *", ENUM: "enum", NESTED: "nested struct", ANON: "anonymous struct",
            NESTED_U: "nested union", ANON_U: "anonymous union"}
TOP_NAME = {0: "struct", 1: "union"}
KINDS = "_Bool, char, signed char, unsigned char, short, unsigned short, int, unsigned, long, unsigned long, long long, " \
        "unsigned long long, float, double, long double"


def loops(n, nsub, maxsize):
    m = n + 1
    return {"h_build_graph#0": m, "h_build_graph#1": nsub + 1, "h_nd_description#0": m, "h_nd_description#1": nsub + 1,
            "h_mk_aggr#0": m, "h_mk_aggr#1": nsub + 1,
            "sv_layout#0": m, "h_has_named#0": m,
            **{"harness#%d" % k: max(m, nsub + 1, 3) for k in range(8)},
            "sv_classify_agg#0": m, "sv_classify_agg#1": 4, "sv_classify_agg#2": 4, "sv_pass_arg#0": 3, "sv_pass_arg#1": 3,
            "set_type_layout#0": m, "aux_set_type_align#0": m, "update_members_offset#0": nsub + 1,
            "incomplete_type_p#0": 2, "DLIST_node_t_el#0": 5, "DLIST_node_t_el#1": 5,
            "update_field_layout#0": maxsize + 18,
            "classify_arg#0": 3, "classify_arg#1": 3, "classify_arg#2": m, "classify_arg#3": 3, "classify_arg#4": 3,
            "process_ret_type#0": 3, "process_aggregate_arg#0": 3, "get_blk_type#0": 3}


def shape_name(shape):
    return "-".join(CLS_NAME[c & 7] + ("[]" if c & ARR else "") for c in shape)


def witness_defs(mode, shape, feat, top, nsub):
    """Which reachability witnesses exist for this (concrete) shape: only those some declaration of the shape reaches."""
    n = len(shape)
    cls = [c & 7 for c in shape]
    arr = [bool(c & ARR) for c in shape]
    bfcap = [bool(feat & F_BF) and cls[i] in (ARITH, ENUM) and not arr[i] for i in range(n)]
    aggr = [c in AGGR for c in cls]
    uni = [c in (NESTED_U, ANON_U) for c in cls]
    plain = [cls[i] == ARITH and not arr[i] for i in range(n)]
    d = {}
    if mode == 0:
        d["H_W_BF"] = any(bfcap) and n >= 2
        d["H_W_BF2"] = any(bfcap[i] and bfcap[i + 1] for i in range(n - 1))
        d["H_W_ARR"] = any(arr)
        d["H_W_NESTED"] = NESTED in cls or NESTED_U in cls
        d["H_W_ANON"] = ANON in cls or ANON_U in cls
    else:
        d["H_W_MEM"] = (ARITH in cls and n >= 2) or any(arr[i] and cls[i] == ARITH for i in range(n)) or \
                       (any(aggr[i] and not uni[i] for i in range(n)) and nsub >= 2) or (any(uni) and n >= 2)
        d["H_W_MEM16"] = (top == 1 and n >= 2 and any(plain)) or (any(uni) and nsub >= 2 and (n == 1 or top == 1))
        d["H_W_SS"] = (n == 2 and all(plain) and top == 0) or \
                      (n == 1 and ((aggr[0] and not uni[0] and not arr[0] and nsub >= 2) or (arr[0] and cls[0] == ARITH)))
        d["H_W_IS"] = (n == 2 and all(plain) and top == 0) or (n == 1 and aggr[0] and not uni[0] and not arr[0] and nsub >= 2)
        d["H_W_X87"] = n == 1 and (cls[0] == ARITH or uni[0] or (aggr[0] and feat & F_BF and not feat & F_SUBARR))
        minsz = sum({ARITH: 1, PTR: 8, ENUM: 4}.get(c, 1 if c in (NESTED_U, ANON_U) else nsub) for c in cls)
        d["H_W_I1"] = top == 1 or minsz <= 8
    return ["%s=%d" % (k, 1 if v else 0) for k, v in d.items()]


def ob(mode, shape, top, feat=F_BF, nsub=2, maxsize=64, timeout=900, solver="cadical"):
    n = len(shape)
    name = "%s.%s.%s%s%s" % ("layout" if mode == 0 else "pass", TOP_NAME[top], shape_name(shape),
                              ".bf" if feat & F_BF else "", ".subarr" if feat & F_SUBARR else "")
    what = {0: "sizeof, _Alignof, offset of every member, absolute bit position/width of every named bit-field",
            1: "classify_arg eightbyte classes, MIR block type, hidden-pointer return, result registers, argument "
               "registers for every count of registers already used"}[mode]
    members = "; ".join("%s%s" % (CLS_DESC[c & 7], " [1..%d]" % (2 if (c & 7) in AGGR else 3) if c & ARR else "") for c in shape)
    return Ob(name, "C08/layout.c",
              defs=["H_MODE=%d" % mode, "H_N=%d" % n, "H_SHAPE={%s}" % ",".join(str(c) for c in shape), "H_FEAT=%d" % feat,
                    "H_TOP=%d" % top, "H_NSUB=%d" % nsub, "H_MAXSIZE=%d" % maxsize] + witness_defs(mode, shape, feat, top, nsub),
              loops=loops(n, nsub, maxsize), unwind=8, checks="functional", object_bits=12, timeout=timeout, solver=solver,
              native_cc=[os.path.join(REPO, "mir.c")],
              sample="every %s { %s } with arithmetic types over {%s}%s; nested/anonymous aggregates have %d arithmetic "
                     "members%s; sizeof <= %d: %s"
                     % (TOP_NAME[top], members, KINDS,
                        ", integer/enum members optionally bit-fields of every width incl. unnamed and zero-width" if feat & F_BF else "",
                        nsub, " (first one an array)" if feat & F_SUBARR else "", maxsize, what))


def shapes(tier):
    T, P, E, S, A, U, AU = ARITH, PTR, ENUM, NESTED, ANON, NESTED_U, ANON_U
    one = [[T], [T | ARR], [P], [E], [S], [A], [U], [AU], [S | ARR]]
    two = [[T, T], [T | ARR, T], [T, T | ARR], [T, P], [E, T], [T, S], [U, T], [T, A], [AU, T]]
    three = [[T, T, T], [T, S, T], [T, AU, T]]
    if tier == "quick":
        return one + two + three
    two += [[P, T], [T, E], [P | ARR, T], [S, S], [A, AU], [S | ARR, T], [T, U | ARR], [E, E], [T | ARR, T | ARR],
            [S, T], [T, U], [A, T], [T, AU], [U, U], [AU, A]]
    three += [[T, T | ARR, T], [T, T, P], [E, T, T], [T | ARR, T, T], [T, T, T | ARR], [S, T, T], [T, T, U], [A, T, T],
              [T, T, AU], [T, U, T], [T, A, T], [T, S, AU]]
    four = [[T, T, T, T], [T, T, T | ARR, T], [T, S, T, T], [T, T, AU, T]]
    return one + two + three + four


def obligations(tier):
    obs = []
    to = 600 if tier == "quick" else 1500
    for mode in (0, 1):
        for sh in shapes(tier):
            for top in (0, 1):
                obs.append(ob(mode, sh, top, timeout=to))
        if tier != "quick":
            for sh in ([ARITH, NESTED], [ANON_U, ARITH], [NESTED], [NESTED_U]):
                for top in (0, 1):
                    obs.append(ob(mode, sh, top, feat=F_BF | F_SUBARR, timeout=to))
    return obs


def check(tier, only=None):
    obs = obligations(tier)
    if only:
        obs = [o for o in obs if only in o.name]
    meta = {
        "bounds": {
            "outer aggregate": "struct or union, 1..%d members (one obligation per count), sizeof <= 64" % (3 if tier == "quick" else 4),
            "member kinds": KINDS + "; arrays of 1..3 scalars; nested / anonymous struct or union of 1..2 scalar, array or "
                            "bit-field members (nesting depth 2); arrays of 1..2 nested aggregates (thorough)",
            "bit-fields": "declared type any integer kind, _Bool or enum; every width 0..bits(type) (_Bool: 0..1 as gcc "
                          "accepts); named or unnamed; zero width only unnamed",
            "argument position": "0..6 general and 0..8 SSE argument registers already used (symbolic)",
            "loops": "per-loop unwinding bounds with unwinding assertions; update_field_layout's backward scan: sizeof+18",
        },
        "assumptions": [
            "no c2mir_init: the type/node/decl graph is built by the harness in the state check() leaves before "
            "create_decl calls set_type_layout (all raw_size = MIR_SIZE_MAX, align = -1, decl offset 0, bit_offset -1); "
            "curr_scope = NULL (the declaration is complete, we are not inside it); n_errors = 0",
            "natural alignment only: no _Alignas, no packed/aligned attributes (c2mir has none)",
            "every aggregate has at least one member that is not an unnamed bit-field (empty aggregates are a GNU extension)",
            "passing obligations are proved for the declarations on which the layout obligations' equalities hold "
            "(H_ASSUME); layout deviations are reported by the layout obligations only",
            "passing: declarations with an unnamed bit-field inside a union, or an unnamed non-zero-width bit-field "
            "inside a nested aggregate, are left out (psABI gives no rule, gcc's behaviour depends on machine modes; "
            "see ref/sysv_ref.h); an eightbyte consisting of padding only is left out",
            "the oracle models gcc >= 12 (zero-width bit-fields ignored by the classification, psABI clarification of 2021)",
            "what is compared is the DECISION (classes, block type, registers, hidden pointer); the MIR-level moves that "
            "implement a chosen block type are C05/C06, the code gen() emits for member accesses is outside C08's encoding",
            "enum: values fit int or unsigned (c2mir basic type TP_INT/TP_UINT, or the undefined-enum default)",
        ],
    }
    return run_all("C08", tier, obs, "model_checking", meta)
