"""C06 -- MIR functions are correct C-ABI callees and preserve the caller's machine state (DESIGN.md section 3, C06).

Legs:
  callee.*  generated code of a MIR function with the enumerated signature (harness/C06/callee.c), -O2 (quick) / -O0..3
  va.*      variadic consumers: va_start + va_arg of i64 / d / ld behind 0..9 named ints / doubles (harness/C06/va.c,
            real va_arg_builtin of mir-x86_64.c)
  shim.*    interpreter interface: the real _MIR_get_interp_shim per result-type list (harness/C06/shim.c)
Oracle: ref/sysv_call_ref.h.  Enumeration: tools/gen_protos.py (same prototypes as C05).
"""
import concurrent.futures as cf
import copy
import json
import os
import re
import sys

from vlib import Ob, run_all, VERIF, set_prepare, NCPU

sys.path.insert(0, os.path.join(VERIF, "tools"))
sys.path.insert(0, os.path.dirname(os.path.abspath(__file__)))
import gen_protos as gp  # noqa: E402
import C05  # noqa: E402  (shared: dumper build, sh, chunking, selection)

TOOLS = os.path.join(VERIF, "tools")
CC = ["-I" + TOOLS, "-I" + os.path.join(VERIF, "harness/C05"), "-I" + os.path.join(VERIF, "harness/C06")]
LIFT = os.path.join(TOOLS, "x86lift.py")
FLAGS = C05.FLAGS


def callee_cases(tier, seed):
    cs = copy.deepcopy(C05.select(tier, seed))
    out = []
    for c in cs:
        if c["vararg"]:
            if not c["args"]:
                continue  # MIR text cannot declare a variadic function without a named parameter
            if c["nnamed"] == 0:
                c["nnamed"] = 1
                if c["args"][0] == "d" and False:
                    pass
        out.append(c)
    return gp.assign_variants(out)


def leg_callee(tier, scratch, dumper, seed):
    """quick: the quick enumeration at -O2.  thorough: the thorough enumeration at -O2 and the quick enumeration at -O0, -O1, -O3
    (4 levels x the thorough enumeration did not fit the time budget)."""
    plans = [("cal", callee_cases(tier, seed), [2])]
    if tier == "thorough":
        plans.append(("calq", callee_cases("quick", seed), [0, 1, 3]))
    obs, fp, total = [], {"frame pointer kept": 0, "frame pointer omitted": 0}, 0
    for prefix, cs, levels in plans:
        total += len(cs) * len(levels)
        groups = gp.pack(cs, C05.PER_GROUP, "callee")
        chunks = C05.chunked(groups, C05.CHUNK)
        for ix, ch in enumerate(chunks):
            members = [c for g in ch for c in g[1]]
            base = os.path.join(scratch, "%s%03d" % (prefix, ix))
            gp.emit_callee_mir(base + ".mir", members)
            gp.emit_cases_h(base + "_cases.h", members, [(g[0], g[1]) for g in ch], "h_run_callee_case", "LIFT_F_%s_ADDR")

        def make(job, prefix=prefix, chunks=chunks):
            ix, lv = job
            members = [c for g in chunks[ix] for c in g[1]]
            base = os.path.join(scratch, "%s%03d" % (prefix, ix))
            C05.sh([dumper, "-O%d" % lv, base + ".mir"], out="%s_O%d.json" % (base, lv))
            C05.sh([sys.executable, LIFT, "%s_O%d.json" % (base, lv), "--only", ",".join("f_" + c["name"] for c in members),
                    "-o", "%s_O%d_lifted.c" % (base, lv)])

        with cf.ThreadPoolExecutor(NCPU) as ex:
            list(ex.map(make, [(ix, lv) for ix in range(len(chunks)) for lv in levels]))
        # frame layouts seen (DESIGN C06: "the evidence counts how many of each"): a function that keeps the frame pointer starts with
        # `mov [rsp-8],rbp`, one that omits it does not
        for ix in range(len(chunks)):
            for lv in levels:
                txt = open("%s_O%d_lifted.c" % (os.path.join(scratch, "%s%03d" % (prefix, ix)), lv)).read()
                for m in re.finditer(r"void lift_f_\w+ \(x86_state \*s\) \{\n[^\n]*\n\s*/\* [0-9a-f]+: ([^\n]*) \*/", txt):
                    fp["frame pointer kept" if "rbp" in m.group(1) else "frame pointer omitted"] += 1
        for ix, ch in enumerate(chunks):
            base = os.path.join(scratch, "%s%03d" % (prefix, ix))
            for lv in levels:
                for gname, members, kind in ch:
                    obs.append(Ob("%s.O%d" % (gname.replace("callee_", "callee.", 1), lv), "C06/callee.c",
                                  defs=['ABI_LIFTED="%s_O%d_lifted.c"' % (base, lv), 'ABI_CASES="%s_cases.h"' % base, "H_ND_MAX=%d" % C05.ND_MAX],
                                  cc=CC, entry=gname, unwind=70, object_bits=10, flags=FLAGS, timeout=600 if tier == "quick" else 1200,
                                  sample="-O%d code of %d functions with parameter kinds {%s}, e.g. %s; argument values, callee-saved registers, "
                                         "caller stack symbolic" % (lv, len(members), kind, gp.describe(members[0]) + members[0].get("note", ""))))
    META["bounds"]["frame layouts"] = "%d functions keep the frame pointer, %d omit it" % (fp["frame pointer kept"], fp["frame pointer omitted"])
    return obs, total


def leg_va(tier, scratch, dumper, seed):
    """quick: quick shapes at -O2.  thorough: all 99 shapes (+ block shapes) at -O2, the quick shapes at -O0, -O1, -O3."""
    plans = [("va", gp.va_cases(tier, seed), [2])]
    if tier == "thorough":
        plans.append(("vaq", gp.va_cases("quick", seed), [0, 1, 3]))
    obs, total = [], 0
    for prefix, cs, levels in plans:
        total += len(cs) * len(levels)
        by = {}
        for c in cs:
            by.setdefault(c["group"], []).append(c)
        groups = [("va_" + k, by[k]) for k in sorted(by)]
        base = os.path.join(scratch, prefix)
        gp.emit_va_mir(base + ".mir", cs)
        gp.emit_cases_h(base + "_cases.h", cs, groups, "h_run_va_case", "LIFT_F_%s_ADDR")

        def make(lv, base=base, cs=cs):
            C05.sh([dumper, "-O%d" % lv, base + ".mir"], out="%s_O%d.json" % (base, lv))
            C05.sh([sys.executable, LIFT, "%s_O%d.json" % (base, lv), "--only", ",".join("f_" + c["name"] for c in cs), "-o", "%s_O%d_lifted.c" % (base, lv)])

        with cf.ThreadPoolExecutor(len(levels)) as ex:
            list(ex.map(make, levels))
        for lv in levels:
            for gname, members in groups:
                obs.append(Ob("%s.O%d" % (gname.replace("va_", "va.", 1), lv), "C06/va.c",
                              defs=['ABI_LIFTED="%s_O%d_lifted.c"' % (base, lv), 'ABI_CASES="%s_cases.h"' % base, "H_ND_MAX=%d" % C05.ND_MAX],
                              cc=CC, entry=gname, unwind=70, object_bits=12, flags=FLAGS, timeout=600,
                              sample="-O%d: named parameters (%s), then `...` read with va_arg: %s" % (
                                  lv, ", ".join(members[0]["args"][:members[0]["nnamed"]]), "; ".join("/".join(m["va"]) for m in members))))
    return obs, total


SHIM_ARGS = [
    ["i64"] * 7 + ["d"] * 9,
    ["d", "i64"] * 8,
    ["i8", "u8", "i16", "u16", "i32", "u32", "i64", "u64", "p", "f", "d", "ld", "i8", "f"],
    ["i64"] * 7 + ["ld", "i32", "ld", "f"] + ["d"] * 8 + ["f"],
    ["ld", "rblk", "p", "u16"],
    [],
    ["f"] * 10 + ["i32"] * 8 + ["ld"],
]


def leg_shim(tier, scratch, dumper, seed):
    rls = gp.res_lists() + gp.MULTI_RES
    cs = []
    for i, res in enumerate(rls):
        args = SHIM_ARGS[(i + seed) % len(SHIM_ARGS)]
        cs.append({"name": "s%03d" % i, "res": res, "args": list(args), "nnamed": len(args), "vararg": 0})
    per = 12
    groups = [("shim_%d" % (i // per), cs[i:i + per]) for i in range(0, len(cs), per)]
    base = os.path.join(scratch, "shim")
    with open(base + ".txt", "w") as f:
        f.write("\n".join(gp.proto_line(c) for c in cs) + "\n")
    C05.sh([dumper, "--trampolines", base + ".txt"], out=base + ".json")
    dump = json.load(open(base + ".json"))
    item = {}
    for r in dump["regions"]:
        if r["kind"] == "interp_shim":
            for e in r.get("embedded", []):
                if e["meaning"] == "func_item":
                    item[r["name"][len("interp_shim_"):]] = e["value"]
    for c in cs:
        c["aux"] = item[c["name"]] + "ull"
    C05.sh([sys.executable, LIFT, base + ".json", "--only", ",".join("interp_shim_" + c["name"] for c in cs), "-o", base + "_lifted.c"])
    gp.emit_cases_h(base + "_cases.h", cs, groups, "h_run_shim_case", "LIFT_INTERP_SHIM_%s_ADDR")
    obs = []
    for gname, members in groups:
        obs.append(Ob(gname.replace("shim_", "shim.", 1), "C06/shim.c",
                      defs=['ABI_LIFTED="%s_lifted.c"' % base, 'ABI_CASES="%s_cases.h"' % base, "H_ND_MAX=%d" % C05.ND_MAX],
                      cc=CC, entry=gname, unwind=70, object_bits=10, flags=FLAGS, timeout=600,
                      sample="interp shims of %d result lists (%s ...); all entry registers (128-bit xmm), caller stack, interpreter results symbolic"
                             % (len(members), "; ".join(",".join(m["res"]) or "void" for m in members[:4]))))
    return obs, len(cs)


def prepare(tier, scratch):
    seed = int(os.environ.get("VERIF_SEED", "0") or 0)
    dumper = C05.build_dumper(scratch)
    o1, n1 = leg_callee(tier, scratch, dumper, seed)
    o2, n2 = leg_va(tier, scratch, dumper, seed)
    o3, n3 = leg_shim(tier, scratch, dumper, seed)
    META["bounds"]["prototypes"] = ("callee: %d signatures (%s; variadic twins need >= 1 named parameter in MIR text); body variants "
                                    "(values live across the call, alloca mode, leaf) assigned round-robin from %s; va: %d consumers; shim: %d result lists"
                                    % (n1, C05.ENUM_NOTE, gp.VARIANTS, n2, n3))
    return o1 + o2 + o3


META = {
    # entry points are per-group functions, so vlib's reachability scan from main() finds nothing: the list is stated here
    "functions_encoded": [
        "mir-gen.c + mir-gen-x86_64.c: machine code emitted by MIR_gen for every enumerated function definition (target_machinize incl. the "
        "parameter prologue, VA_START / VA_ARG expansion, alloca, target_make_prolog_epilog, register allocation and spilling, "
        "target_translate) at the stated -O levels, lifted",
        "mir-x86_64.c: va_arg_builtin (the C function, executed symbolically)",
        "mir-x86_64.c: machine code emitted by _MIR_get_interp_shim (push_rbx, save_pat, prepare_pat, result moves, fxch, shim_end) per result list, lifted",
    ],
    "bounds": {"arguments": "<= 20 per signature", "alloca": "constant 32 bytes / variable with the concrete size 24 (rounding path) / none",
               "live values": "0, 8 or 20 across one external call", "va": "named parameters: 0..9 i64 and 0..9 d (quick: the two axes + 9 mixed "
               "shapes, thorough: all 99) and 10 lists with by-value blocks / long doubles; tails i64,i64 / d,d / i64,d,ld / ld,i64,d (thorough + d,i64,i64)",
               "levels": "quick: -O2; thorough: the thorough enumeration at -O2 and the quick enumeration at -O0, -O1, -O3",
               "values": "all argument values, callee-saved registers, caller stack words, results symbolic"},
    "assumptions": [
        "oracle = ref/sysv_call_ref.h (psABI 3.2.3, 3.5.7 + MIR.md)",
        "entry: rsp % 16 == 8, x87 stack empty, DF = 0; the caller sets %al to the number of vector registers used for variadic callees",
        "machine code executed through tools/x86lift.py + lift_rt.h; MXCSR / x87 control word are plain fields that only ldmxcsr / fldcw write",
        "mirgen-dump is built with the production flag -DNDEBUG (generator assertions off)",
        "va: va_block_arg is not covered (the builtin dereferences the save area; it cannot run on integer-addressed harness memory); "
        "the va_arg builtin is the real C function, its call sequence the real generated code",
        "shim: the handler (real interp()) is a stub; its va_arg decoding is represented by the psABI va_arg algorithm of the oracle "
        "(blocks excluded); the shim's own code and the va_list it builds are the real bytes",
        "upper halves of xmm registers: one shared symbolic value per bank (callee, va); each its own value in the shim leg",
    ],
}


def check(tier, only=None):
    set_prepare(prepare)
    return run_all("C06", tier, None, "model_checking", META, only=only)
