"""C09 - preprocessor; only the `#if` EVALUATION half is claimed (DESIGN.md section 3, C09).

Engine E1: the real `eval`/`eval_binop_operands` of c2mir/c2mir.c on hand-built expression trees against
ref/ppif_ref.h (C11 6.10.1p4 + 6.6 + 6.5.x); plus the pure `stringify`/`destringify` pair.
Obligation families:
  leaf            eval of every constant kind (9 node codes), value and signedness
  op.<o>          one operator over leaves: value AND type (uns_p) for all 64-bit operand values, all combinations
                  of leaf kinds; error reported iff a zero divisor is evaluated
  op.<o>.div0     / and %: zero divisor is diagnosed
  op.<o>.xF6      the operators hit by finding F6, re-proved with exactly the F6 operand-type combinations assumed
                  away (what still holds on the unfixed tree)
  d2.<i>.in.<o>.<p>  depth 2: operator <i> as operand number <p> of operator <o> (final value and type; no error
                  for a zero divisor inside an operand that is not evaluated)
  str.*           stringify / destringify
"""
import os

from vlib import Ob, run_all

OPS = ["bitnot", "not", "plus", "neg", "eq", "ne", "lt", "le", "gt", "ge", "add", "sub", "mul", "div", "mod",
       "and", "or", "xor", "lsh", "rsh", "andand", "oror", "cond"]
SYM = ["~", "!", "+", "-", "==", "!=", "<", "<=", ">", ">=", "+", "-", "*", "/", "%", "&", "|", "^", "<<", ">>",
       "&&", "||", "?:"]
IX = {n: i for i, n in enumerate(OPS)}
HEAVY = {"mul", "div", "mod"}          # 64-bit multiplier/divider circuits: SMT back end (term level)
F6 = ["eq", "ne", "lt", "le", "gt", "ge", "not", "lsh", "rsh", "cond"]


def arity(o):
    return 1 if IX[o] <= 3 else 3 if o == "cond" else 2


# native replay only: c2mir.c references the MIR API (never called by these harnesses); leaving the symbols
# unresolved saves compiling mir.c with ASan for every reproduced counterexample (30 s -> 8 s)
NATIVE = ["-no-pie", "-Wl,--unresolved-symbols=ignore-all"]


def eval_ob(name, defs, heavy, depth, sample, timeout):
    # back end: term-level SMT for 64-bit multipliers/dividers, CaDiCaL for barrel shifters, MiniSat otherwise
    # recursion of eval: "eval:k" allows k+1 nested activations = the depth of the tree; a deeper call is an
    # unwinding assertion (the arm of ?: is selected through a symbolic pointer: symex cannot see that it is a leaf)
    return Ob(name, "C09/eval.c", defs=defs, unwind=26, unwindset={"eval": depth},
              loops={"harness#0": 9, "DLIST_node_t_el#0": 4, "DLIST_node_t_el#1": 4},
              object_bits=10, solver="z3" if heavy is True else heavy if heavy else None, timeout=timeout, sample=sample, native_cc=NATIVE)


SHIFTS = {"lsh", "rsh"}


def shape1(o, tier, extra=(), suffix=""):
    heavy = o in HEAVY
    back = True if heavy else "cadical" if o in SHIFTS else None
    # leaf kinds: thorough 9 (unary) / 5 (binary) / 4 (?:) per operand, {N_LL,N_ULL,N_CH} quick,
    # {N_LL,N_ULL} for * / % (64-bit multiplier) - every (value, signedness) pair an operand can have is still covered
    nk = 2 if heavy else 3 if tier == "quick" else {1: 9, 2: 5, 3: 4}[arity(o)]
    return eval_ob("op.%s%s" % (o, suffix), ["OP=%d" % IX[o], "H_SHAPE=1", "H_NK=%d" % nk] + list(extra), back,
                   1,
                   "#if a %s b%s : all 64-bit values, %d leaf kinds per operand%s"
                   % (SYM[IX[o]], " : c" if o == "cond" else "", nk, (" [" + " ".join(extra) + "]") if extra else ""),
                   600 if tier == "thorough" else 240)


def shape2(i, o, p, tier, c0=None, c3=None, extra=(), suffix=""):
    heavy = True if (i in HEAVY or o in HEAVY) else "cadical" if (i in SHIFTS or o in SHIFTS) else None
    defs = ["OP=%d" % IX[o], "H_SHAPE=2", "H_POS=%d" % p, "H_NK=2", "H_OP1_LO=%d" % IX[i], "H_OP1_HI=%d" % (IX[i] + 1)]
    name = "d2.%s.in.%s.%d" % (i, o, p)
    if c0 is not None:
        defs.append("H_C0=%d" % c0)
        name += ".c%d" % c0
    if c3 is not None:
        defs.append("H_C3=%d" % c3)
        name += ".i%d" % c3
    if o == "cond" and ((p == 1 and c0 == 0) or (p == 2 and c0 == 1)):
        defs.append("H_UNEVAL")
    defs += list(extra)
    name += suffix
    return eval_ob(name, defs, heavy, 2,
                   "operand %d of '%s' is an '%s' expression%s%s; leaves N_LL/N_ULL, all 64-bit values"
                   % (p, SYM[IX[o]], SYM[IX[i]], "" if c0 is None else " (outer condition = %d)" % c0,
                      "" if c3 is None else " (inner condition = %d)" % c3),
                   (1800 if o in HEAVY else 600) if tier == "thorough" else 240)


def d2_variants(i, o, p):
    """?: needs a constant condition (see harness): enumerate 0/1 for it; a ?: whose condition is the inner
    expression is not encoded."""
    if o == "cond" and p == 0:
        return []
    c0s = [0, 1] if o == "cond" else [None]
    c3s = [0, 1] if i == "cond" else [None]
    return [(i, o, p, a, b) for a in c0s for b in c3s]


def d2_pairs(tier):
    """(inner, outer, position).  `-` as outer shows the operand's TYPE in the result type, `/` shows it in the VALUE;
    `<` `>>` are the forms quoted in finding F6 (they are hit by F6 themselves)."""
    if tier == "quick":
        pairs = []
        for i in ["eq", "lt", "not", "lsh", "rsh", "cond"]:       # the operators of F6, observed in the type
            pairs.append((i, "sub", 0))
        pairs += [("eq", "div", 0), ("cond", "div", 0)]           # ... and in the value
        pairs += [("rsh", "lt", 0), ("cond", "lt", 0)]            # (a >> b) < c, (a ? b : c) < d
        for i in ["add", "neg", "bitnot", "andand", "and"]:       # operators not hit by F6
            pairs.append((i, "sub", 0))
        # zero divisor in an operand that is / is not evaluated
        pairs += [("div", "cond", 1), ("mod", "cond", 2), ("div", "andand", 1), ("div", "oror", 1)]
        return pairs
    pairs = []
    light = [o for o in OPS if o not in HEAVY]
    for o in light:
        for p in range(arity(o)):
            for i in light:
                pairs.append((i, o, p))
    for i in sorted(HEAVY):
        pairs += [(i, "lt", 0), (i, "sub", 1), (i, "cond", 1), (i, "cond", 2), (i, "andand", 1), (i, "oror", 1),
                  (i, "andand", 0)]
    for o in sorted(HEAVY):
        for p in range(2):
            for i in ["eq", "not", "cond", "neg"]:   # lsh/rsh under * / %: barrel shifter feeding a multiplier/divider, no verdict in 600 s with any back end (measured)
                pairs.append((i, o, p))
    return pairs


def obligations(tier):
    obs = [eval_ob("leaf", ["H_SHAPE=0", "H_NK=9"], False, 1,
                   "a single constant of each of the 9 kinds N_I N_L N_LL N_U N_UL N_ULL N_CH N_CH16 N_CH32", 240)]
    for o in OPS:
        if o == "cond":   # constant condition, see harness
            obs += [shape1(o, tier, ["H_C0=0"], ".c0"), shape1(o, tier, ["H_C0=1"], ".c1")]
            if tier == "thorough" and os.environ.get("VERIF_DEEP") == "1":   # symbolic condition: no verdict in 1500 s (measured); both constant conditions are decided above
                obs.append(Ob("op.cond.sym", "C09/eval.c", defs=["OP=22", "H_SHAPE=1", "H_NK=2"], unwind=26,
                              unwindset={"eval": 1}, loops={"harness#0": 9, "DLIST_node_t_el#0": 4, "DLIST_node_t_el#1": 4},
                              object_bits=10, timeout=1500, mem_gb=16, native_cc=NATIVE,
                              sample="#if a ? b : c with a symbolic condition (N_LL/N_ULL leaves)"))
        else:
            obs.append(shape1(o, tier))
    for o in ("div", "mod"):
        obs.append(shape1(o, tier, ["H_DIV0=1"], ".div0"))
    for o in F6:
        if o == "cond":
            obs += [shape1(o, tier, ["H_C0=0", "H_EXCLUDE_F6"], ".c0.xF6"), shape1(o, tier, ["H_C0=1", "H_EXCLUDE_F6"], ".c1.xF6")]
        else:
            obs.append(shape1(o, tier, ["H_EXCLUDE_F6"], ".xF6"))
    for i, o, p in d2_pairs(tier):
        for v in d2_variants(i, o, p):
            obs.append(shape2(v[0], v[1], v[2], tier, v[3], v[4]))
            if i in HEAVY and o == "cond":   # "no error for a zero divisor in the arm not selected", decided apart from F6
                obs.append(shape2(v[0], v[1], v[2], tier, v[3], v[4], ["H_EXCLUDE_F6"], ".xF6"))
    ln = 3 if tier == "quick" else 4
    for mode, nm in ((1, "stringify"), (2, "destringify"), (3, "roundtrip")):
        obs.append(Ob("str." + nm, "C09/strfy.c", defs=["H_MODE=%d" % mode, "H_LEN=%d" % ln], unwind=2 * ln + 10,
                      object_bits=10, checks="memsafe", timeout=240, native_cc=NATIVE,
                      sample="%s for every byte string of length <= %d" % (nm, ln)))
    return obs


def check(tier, only=None):
    obs = obligations(tier)
    if only:
        obs = [o for o in obs if only in o.name]
    meta = {
        "bounds": {
            "tree depth": "<= 2 operator levels (one operator over leaves: all 23 operators; depth 2: quick = 22 "
                          "(inner, outer, position) triples, thorough = all pairs of the 20 light operators at every "
                          "operand position + selected pairs with * / %)",
            "?: condition": "the condition of every ?: is the CONSTANT 0 or 1 (both enumerated); a symbolic condition "
                            "makes the selected arm a symbolic pointer (25 M clauses for one ?: over leaves); it is "
                            "attempted only as thorough obligation op.cond.sym; a ?: whose condition is an operator "
                            "expression is not encoded.  Zero / non-zero tests of all 64-bit values are covered by ! && ||",
            "leaf values": "all 64-bit values",
            "leaf kinds": "leaf obligation: all 9 node codes; operator obligations: N_LL, N_ULL, N_CH (quick); thorough: 9 "
                          "kinds (unary), 5 (binary: + N_I, N_U), 4 (?:); N_LL/N_ULL for * / % and for depth 2",
            "strings": "every byte string without NUL of length <= 3 (quick) / 4 (thorough)",
        },
        "assumptions": [
            "Only the #if EVALUATION half of C09 is decided: macro expansion, directive handling, the parsing of the "
            "controlling expression (parse_pre_expr) and the classification of pp-numbers are NOT encoded.",
            "x86-64 Linux target: intmax_t/uintmax_t 64 bit, plain char signed, char16_t/char32_t unsigned.",
            ">> of a negative signed value is arithmetic (implementation-defined in C11 6.5.7p5; gcc/x86-64).",
            "Not asserted (assumed away in an EVALUATED position only): signed overflow of + - * unary-, INTMAX_MIN / -1 "
            "and % -1, shift count negative or >= 64, << of a negative value or with an unrepresentable result "
            "(undefined in C; c2mir wraps, and CRASHES with SIGFPE on INTMAX_MIN / -1 - reported, not claimed).",
            "eval treats an operand only through the struct val returned for it (no inspection of the operand's node "
            "code) - this is why the leaf kinds N_LL/N_ULL, which produce every (value, signedness) pair, suffice for "
            "the multiplier obligations and for depth 2.",
            "Tree nodes are written field by field in CBMC mode (head/tail of the operand list through the union "
            "member CBMC uses as representation); the state is read back through the real DLIST accessors in every "
            "obligation and natively built with the real NL_APPEND.",
            "error() output (vfprintf/fprintf) is stubbed to no-ops under CBMC; reporting is observed through n_errors. "
            "error() counts only when options->message_file is non-NULL; the harness sets it.",
        ],
    }
    return run_all("C09", tier, obs, "model_checking", meta)
