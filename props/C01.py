"""C01 — generated machine code behaves like the interpreter at every optimisation level (DESIGN.md section 3, C01).

For every function f of a finite corpus (tools/gen_c01.py) and every level O, ONE CBMC run executes
  (1) the real interpreter (eval / call / call_insn_execute) on the icode the real MIR_link + generate_icode produced for f
      (tools/mirdump, engine E2), and
  (2) the machine code the real generator emitted for f at -O<level> (tools/mirgen-dump), lifted to C (tools/x86lift.py, E3),
from the same symbolic arguments, the same initial memory and the same nondet results of external calls, and asserts equal
results, equal final memory and equal external-call logs (harness/C01/c01.c, c01_rt.h).
Obligation names: <group>.<function>.O<level>; a generator crash on a group is the obligation <group>.generator.O<level>."""
import concurrent.futures as cf
import json
import os
import subprocess
import sys

from vlib import Ob, run_all, REPO, VERIF, run, set_prepare

sys.path.insert(0, os.path.join(VERIF, "tools"))
import gen_c01  # noqa: E402
from C02 import build_mirdump, build_mirgen_dump  # noqa: E402

TOOLS = os.path.join(VERIF, "tools")
LEVELS = {"quick": [0, 2], "thorough": [0, 1, 2, 3]}
# The interpreter keeps MIR registers in `MIR_val_t frame[H_MAXREGS + 3]` and the lifted code its stack in e3_stack[288]; CBMC tracks
# array elements individually (so that concrete values - loop counters, switch indices, addresses - stay concrete through a
# store/load) only up to this size; default 64.  Measured on mir-tests/test14 f (switch): no verdict in 170 s -> 3 s.
FS_FLAGS = ["--max-field-sensitivity-array-size", "320"]
EVAL_BOUND = 200  # executed icode insns per eval() activation
STATS = {"programs": 0, "skipped": [], "crashes": [], "groups": 0}


def lift_group(exe, g, level, scratch, hdr):
    """-> (lifted path, dump json) or raises RuntimeError; a generator crash raises GenCrash"""
    base = os.path.join(scratch, "c01_%s_O%d" % (g["name"], level))
    with open(base + ".json", "w") as f:
        p = subprocess.run([exe, "-O%d" % level, g["file"]], stdout=f, stderr=subprocess.PIPE, text=True)
    if p.returncode != 0:
        raise GenCrash("mirgen-dump -O%d rc=%s: %s" % (level, p.returncode, (p.stderr or "").strip()[-300:]), p.returncode)
    p = subprocess.run([sys.executable, os.path.join(TOOLS, "x86lift.py"), base + ".json", "-o", base + ".raw.c"], stdout=subprocess.PIPE, stderr=subprocess.PIPE, text=True)
    if p.returncode != 0:
        raise RuntimeError("x86lift.py cannot translate %s at -O%d: %s" % (g["name"], level, p.stderr[-400:]))
    dump = json.load(open(base + ".json"))
    text, n, problems = gen_c01.rewrite_lifted(open(base + ".raw.c").read(), dump, hdr)
    if problems:
        raise RuntimeError("; ".join(problems[:3]))
    with open(base + ".c", "w") as f:
        f.write(text)
    return base + ".c", dump


class GenCrash(Exception):
    def __init__(self, msg, rc):
        Exception.__init__(self, msg)
        self.rc = rc


def prepare(tier, scratch):
    rc, out, _ = run([sys.executable, os.path.join(TOOLS, "gen_c01.py"), scratch, tier], 120, 0)
    if rc != 0:
        raise RuntimeError("gen_c01 failed: " + out)
    corpus = json.load(open(os.path.join(scratch, "c01_corpus.json")))
    mirdump = build_mirdump(scratch)
    mirgen = build_mirgen_dump(scratch)
    levels = LEVELS[tier]
    STATS.update(programs=0, skipped=[], crashes=[], groups=len(corpus["groups"]))
    for t, why in corpus["excluded"].items():
        STATS["skipped"].append("mir-tests/%s.mir: %s" % (t, why))
    obs = []

    def do_group(g):
        res = []
        name = g["name"]
        meta = gen_c01.parse_mir(open(g["file"]).read())
        dump_h = os.path.join(scratch, "c01_%s_dump.h" % name)
        with open(dump_h, "w") as f:
            p = subprocess.run([mirdump, g["file"]], stdout=f, stderr=subprocess.PIPE, text=True)
        if p.returncode != 0:
            return [("skip", "%s: mirdump (real MIR_link + generate_icode) failed: %s" % (name, p.stderr[-300:]))]
        hdr = gen_c01.parse_dump_header(open(dump_h).read())
        cases_h = os.path.join(scratch, "c01_%s_cases.h" % name)
        entries = None
        for level in ([0, 1, 2, 3] if g["opts"].get("all_levels") else levels):
            try:
                lifted, dump = lift_group(mirgen, g, level, scratch, hdr)
            except GenCrash as e:
                res.append(("crash", name, level, str(e), g))
                continue
            except RuntimeError as e:
                res.append(("skip", "%s at -O%d: %s" % (name, level, e)))
                continue
            names = [r["name"] for r in dump["regions"] if r["kind"] == "func"]
            if entries is None:
                text, entries = gen_c01.make_cases(meta, hdr, names)
                with open(cases_h, "w") as f:
                    f.write(text)
                for e in entries:
                    if e["skip"]:
                        res.append(("skip", "%s.%s: %s" % (name, e["func"], e["skip"])))
            big = max([64] + list(hdr["secs"].values()) + [g["opts"].get("buf_bytes", 64)])
            nwords = g["opts"].get("buf_bytes", 64) // 8
            for e in entries:
                if e["skip"]:
                    continue
                if e["thorough_only"] and tier != "thorough":
                    if level == levels[0]:
                        res.append(("skip", "%s.%s: deferred to the thorough tier (multiplier / divider / fp adder on both sides)" % (name, e["func"])))
                    continue
                defs = ["MIR_DIRECT_DISPATCH", 'C01_DUMP="%s"' % dump_h, 'E3_LIFTED="%s"' % lifted, 'C01_CASES="%s"' % cases_h]
                if "buf_bytes" in g["opts"]:
                    defs.append("C01_BUF_BYTES=%d" % g["opts"]["buf_bytes"])
                if "ext_calls" in g["opts"]:
                    defs.append("H_MAX_EXT_CALLS=%d" % g["opts"]["ext_calls"])
                if "maxregs" in g["opts"]:
                    defs.append("H_MAXREGS=%d" % g["opts"]["maxregs"])
                # mul/div on symbolic values: z3 (bit-vector); fp arithmetic: CaDiCaL (cbmc --fpa cannot be used: "flatten2bv of a
                # non-constant FPA-encoded float is unsupported" as soon as a float lives in the interpreter's MIR_val_t union)
                smt = e["heavy"] and not e["fp"]
                res.append(("ob", Ob("%s.%s.O%d" % (name, e["func"], level), "C01/c01.c", defs=defs, entry=e["entry"],
                                     cc=["-I" + TOOLS, "-I" + os.path.join(VERIF, "harness/E3"), "-I" + os.path.join(VERIF, "harness/C01")],
                                     unwindset={"memcpy.0": big // 8 + 2, "memcpy.1": big + 2, "memcmp.0": big + 2, "memset.0": big + 2, "memset.1": 8 * big, "c01_bytes_diff.0": big + 2,
                                                "c01_interp.0": 3 * nwords + 2, "c01_bufs_equal.0": 3 * nwords + 2, "c01_buf_fill.0": nwords + 2},
                                     unwind=40, paths=True, object_bits=12, checks="functional", timeout=900 if (e["heavy"] or e["fp"]) else 400,
                                     solver="z3" if smt else ("cadical" if e["fp"] else None), flags=FS_FLAGS,
                                     sample="%s at -O%d [%s]" % (e["sample"], level, g["source"]))))
        return res

    with cf.ThreadPoolExecutor(8) as ex:
        for res in ex.map(do_group, corpus["groups"]):
            for r in res:
                if r[0] == "ob":
                    obs.append(r[1])
                elif r[0] == "skip":
                    STATS["skipped"].append(r[1])
                else:
                    _, name, level, msg, g = r
                    STATS["crashes"].append("%s -O%d: %s" % (name, level, msg))
                    obs.append(crash_ob(name, level, msg, g, scratch))
    # the interpreter's dispatch loop is the LAST loop of eval() (its back edge closes the function body); vlib's
    # "function#k" resolution needs a main(), which entry-selected binaries do not have - resolve it here
    first = next((o for o in obs if o.harness == "C01/c01.c"), None)
    if first is not None:
        import re
        import vlib
        gb, err = vlib.build_goto(first, scratch)
        if gb is None:
            raise RuntimeError("goto-cc failed on the C01 harness: " + err[-1500:])
        rc, out, _ = run(["cbmc", gb, "--show-loops"], 300, 8)
        ids = [int(n) for n in re.findall(r"^Loop eval\.(\d+):", out, re.M)]
        if not ids:
            raise RuntimeError("cannot find the loops of eval()")
        for o in obs:
            if o.harness == "C01/c01.c":
                o.unwindset["eval.%d" % max(ids)] = EVAL_BOUND
    STATS["programs"] = len(obs)
    META["programs"] = len(obs)
    META["bounds"]["corpus"] = "%d groups (MIR files), %d (function, level) pairs, levels %s" % (STATS["groups"], len(obs), levels)
    META["bounds"]["not_driven"] = STATS["skipped"]
    META["bounds"]["generator_crashes"] = STATS["crashes"]
    return obs


def crash_ob(name, level, msg, g, scratch):
    """The real generator died (signal / failed assertion) while compiling a corpus file whose functions have no undefined
    behaviour on the inputs the harness drives.  Obligation: harness/C01/gencrash.c - under CBMC a plain failing assertion
    carrying the message; its native replay re-runs the real MIR_gen on the same text in a child process and fails iff the
    child dies, so the VIOLATION is confirmed through the real code."""
    text_h = os.path.join(scratch, "c01_%s_text.h" % name)
    if not os.path.exists(text_h):
        src = open(g["file"]).read()
        with open(text_h, "w") as f:
            f.write("static const char c01_mir_text[] =\n")
            for line in src.splitlines():
                f.write('  "%s\\n"\n' % line.replace("\\", "\\\\").replace('"', '\\"'))
            f.write(";\n")
    return Ob("%s.generator.O%d" % (name, level), "C01/gencrash.c", defs=["C01_LEVEL=%d" % level, 'C01_TEXT_H="%s"' % text_h], unwind=2, timeout=120,
              native_cc=[os.path.join(REPO, "mir.c"), os.path.join(REPO, "mir-gen.c")],
              sample="real generator at -O%d on %s: %s" % (level, g["source"], msg[:200]))


META = {
    "bounds": {"function_size": "<= 60 MIR insns per function", "loops": "symbolic trip counts <= 4 (annotated per function), nested 2x2; <= 200 executed icode insns per interpreter "
               "activation, <= 40 iterations of any other loop and <= 40 recursion levels (unwinding assertions on)", "call_depth": "<= 3 (H_MAX_DEPTH), <= 4 external calls per run (H_MAX_EXT_CALLS)",
               "buffers": "3 harness buffers of 64 bytes (256 in the register-pressure group), pointer arguments point at byte 16 (+ symbolic 0..16)",
               "compile_time_constants": "constants that GVN folds are concrete (boundary grid); the symbolic-constant fold sub-check of DESIGN.md is not built"},
    "assumptions": [
        "interpreter side: engine E2 (interp_rt.h): real eval/call/call_insn_execute on the icode dumped from the real MIR_link + generate_icode; "
        "MIR_DIRECT_DISPATCH build; context built by hand; the ffi trampoline is replaced by h_ff_common; bstart/bend are no-ops; alloca is CBMC's",
        "generator side: engine E3: bytes published by the real MIR_gen (tools/mirgen-dump, generator assertions enabled), decoded by GNU objdump "
        "(trusted), translated by tools/x86lift.py + lift_rt.h (validated natively by tools/e3validate.py, outside this check)",
        "both sides run on the same C objects (harness buffers, module data/bss sections) one after the other from the same initial bytes; absolute "
        "data addresses in the lifted code are rewritten to the section arrays of the interpreter dump (tools/gen_c01.py rewrite_lifted)",
        "entry state of the machine code: System V: integer arguments in rdi rsi rdx rcx r8 r9 then stack, fp in xmm0-7 (low lane, upper bits arbitrary), "
        "long double in 16-byte stack slots; 8/16-bit arguments arrive extended to 32 bits (gcc/clang convention, MIR's own calls do the same), bits 32-63 "
        "of every narrow argument register arbitrary; all other registers, flags and the caller's stack arbitrary; x87 stack empty",
        "results: i64/u64/p compared on all 64 bits; i32/u32/i16/u16/i8/u8 results compared on the bits of the declared type only (the ABI does not define "
        "the rest of rax); f/d: equal bits or both NaN; ld: equal value or both NaN; second results in rdx / xmm1 / st1",
        "external calls: same callee sequence, same bits of every NAMED argument that its declared type defines, results = shared nondet values (raw 64-bit "
        "values, so the upper bits of narrow results are arbitrary on both sides); variadic arguments and %al are not compared; after an external call every "
        "caller-saved register, xmm0-15 and the flags are havocked on the machine-code side",
        "builtins mir.ui2f/ui2d/ui2ld/ld2i are modelled by their C semantics (bodies are gcc's)",
        "undefined MIR behaviour is assumed away through the argument ranges (division by zero, shift counts >= width, switch index outside the table); "
        "functions returning stack addresses are compared on memory and logs only",
        "MXCSR / x87 control word at ABI defaults; AF, DF, alignment and x87 stack faults not modelled; long double = CBMC binary128 on both sides "
        "(long double CONSTANTS in data sections are excluded: their x87 bytes are not a CBMC long double)",
        "post-processing of the lifted C (tools/gen_c01.py rewrite_lifted), both meaning-preserving: (1) absolute addresses of data/bss items -> the "
        "same bytes in the interpreter dump's section arrays; (2) the zeroing idiom `xor r,r` is emitted as the constant 0 instead of (a ^ a), which "
        "CBMC's simplifier does not fold (a loop counter initialised this way would otherwise fork a path at every later branch)",
        "small argument ranges (trip counts, switch indices, alloca sizes, pointer offsets) are case-split in the harness: each value is its own "
        "path with a concrete argument; all values of the range are still decided; --max-field-sensitivity-array-size 320 keeps concrete values "
        "concrete through the interpreter's register frame and the machine stack",
        "fp arithmetic on symbolic operands (same IEEE operator on both sides) is decided by SAT (CaDiCaL) on CBMC's float encoding; only in the "
        "thorough tier; cbmc --fpa is unusable here (floats inside the interpreter's MIR_val_t union)",
        "cbmc --paths lifo: every path through interpreter x machine code is one solver query; a path on which the two sides would take different "
        "branches is explored like any other (the assertions then fail)"],
}


def check(tier, only=None):
    set_prepare(prepare)
    return run_all("C01", tier, None, "translation_validation", META, only=only)
