"""C03 -- behaviour is independent of the execution interface chosen at link time (DESIGN.md section 3, C03).

What is claimed: transparency of the trampolines that differ between the interfaces and exactness of the thunk
retargeting arithmetic; program-level equivalence of lazily generated basic-block versions is NOT claimed.
  tramp.*  (1) every trampoline of tools/mirgen-dump --trampolines, lifted, from a fully symbolic machine state
               (harness/C03/tramp.c), both stack alignments
  thunk.*  (2) E1 on the real _MIR_redirect_thunk / _MIR_get_thunk_addr / _MIR_replace_bb_thunk / _MIR_change_code for
               every pair of addresses (harness/C03/thunk_arith.c)
  mix.*    the entry of the real generate_func_code on a function interpreted before (finding N24, repaired in /repo)
  shim.*   (3) the real _MIR_get_interp_shim per result-type list (harness/C06/shim.c, shared with C06)
"""
import json
import os
import sys

from vlib import Ob, run_all, VERIF, set_prepare

sys.path.insert(0, os.path.join(VERIF, "tools"))
sys.path.insert(0, os.path.dirname(os.path.abspath(__file__)))
import C05  # noqa: E402
import C06  # noqa: E402

TOOLS = os.path.join(VERIF, "tools")
CC = ["-I" + TOOLS, "-I" + os.path.join(VERIF, "harness/C05")]
TRAMPS = [(0, "thunk_short"), (1, "thunk_long"), (2, "thunk_long_then_short"), (3, "wrapper"), (4, "bb_thunk"), (5, "bb_thunk_replaced"), (6, "bb_wrapper")]


def prepare(tier, scratch):
    seed = int(os.environ.get("VERIF_SEED", "0") or 0)
    dumper = C05.build_dumper(scratch)
    base = os.path.join(scratch, "tramp")
    C05.sh([dumper, "--trampolines"], out=base + ".json")
    dump = json.load(open(base + ".json"))
    tgt = {r["name"]: r.get("target") for r in dump["regions"]}
    regions = "thunk_short,thunk_long,thunk_long_then_short,wrapper,wrapper_end,bb_thunk,bb_thunk_replaced,bb_wrapper"
    C05.sh([sys.executable, os.path.join(TOOLS, "x86lift.py"), base + ".json", "--only", regions, "-o", base + "_lifted.c"])
    defs0 = ['ABI_LIFTED="%s_lifted.c"' % base, "H_ND_MAX=512", "H_T_SHORT=%sull" % tgt["thunk_short"], "H_T_LONG=%sull" % tgt["thunk_long"],
             "H_T_LTS=%sull" % tgt["thunk_long_then_short"], "H_T_BBR=%sull" % tgt["bb_thunk_replaced"]]
    obs = []
    for n, name in TRAMPS:
        for al, adef in (("rsp8", []), ("rsp0", ["H_ALIGN0"])):
            obs.append(Ob("tramp.%s.%s" % (name, al), "C03/tramp.c", defs=defs0 + ["TRAMP=%d" % n] + adef, cc=CC, unwind=20, object_bits=10,
                          flags=["--max-field-sensitivity-array-size", "520"], timeout=300,
                          sample="real bytes of %s; 16 GPRs, xmm0-15 (128 bit), flags, 64 bytes of caller stack symbolic, rsp %% 16 == %s; hook "
                                 "clobbers all caller-saved state and returns an arbitrary address" % (name, al[3:])))
    for op, name, what in ((0, "redirect_fresh", "fresh thunk -> _MIR_redirect_thunk (thunk, to)"),
                           (1, "redirect_twice", "_MIR_redirect_thunk to to0 then to to (short<->long switches)"),
                           (2, "replace_bb_thunk", "_MIR_replace_bb_thunk under |to - (thunk + 5)| < 2^31")):
        obs.append(Ob("thunk." + name, "C03/thunk_arith.c", defs=["OP=%d" % op], unwind=50, timeout=300,
                      sample=what + "; thunk and to symbolic addresses in [4096, 2^47)"))
    o3, n3 = C06.leg_shim(tier, scratch, dumper, seed)
    META["bounds"]["shim"] = "%d result lists (all lists of 0..2 results over i8..u64,p,f,d,ld + 7 lists of 3..6 results)" % n3
    obs.append(Ob("mix.interp-then-gen", "C03/mix.c", entry="harness", unwind=3, checks="functional", object_bits=12, timeout=600,
                  native_cc=["-no-pie", "-Wl,--unresolved-symbols=ignore-all"],
                  sample="MIR_gen (also reached by the first call through the public address under lazy generation) on a function that was / was "
                         "not run by MIR_interp before: the generator's entry accepts it and reaches generation proper (pipeline cut)"))
    return obs + o3


META = {
    "functions_encoded": [
        "mir-x86_64.c: _MIR_redirect_thunk, _MIR_get_thunk_addr, _MIR_replace_bb_thunk (C functions, executed symbolically)",
        "mir.c: _MIR_change_code, _MIR_set_code, _MIR_flush_code_cache, MIR_mem_protect (C functions, executed symbolically)",
        "mir-x86_64.c: machine code of _MIR_get_thunk + _MIR_redirect_thunk (short, long, long then short), _MIR_get_wrapper, "
        "_MIR_get_wrapper_end, _MIR_get_bb_thunk, _MIR_replace_bb_thunk, _MIR_get_bb_wrapper, _MIR_get_interp_shim, lifted",
    ],
    "bounds": {"trampolines": "the 7 trampoline kinds of mir-x86_64.c x 2 stack alignments; machine state fully symbolic",
               "thunk arithmetic": "every pair of addresses thunk, to in [4096, 2^47)"},
    "assumptions": [
        "machine code executed through tools/x86lift.py + lift_rt.h (validated natively by tools/e3validate.py)",
        "the trampolines are lifted with the fake hook / item / handler addresses of mirgen-dump --trampolines (only 8-byte immediates "
        "differ from production); mirgen-dump built with -DNDEBUG like the production library",
        "the hook is an arbitrary ABI-conforming C function: clobbers rax rcx rdx rsi rdi r8-r11, xmm0-15, flags; preserves rbx rbp r12-r15 rsp",
        "NOT asserted for the bb wrapper: xmm8-15 and the flags (the wrapper does not save them; whether generated code keeps values "
        "there across basic-block borders is outside this check)",
        "thunk arithmetic: addresses are integers < 2^47 cast to pointers; the write through `thunk` inside _MIR_set_code is diverted by "
        "a replaced memcpy into a harness buffer; _MIR_replace_bb_thunk is checked under the precondition that the displacement fits in "
        "32 bits (it has no range check of its own, unlike _MIR_redirect_thunk / _MIR_get_wrapper)",
        "program-level equivalence of lazily generated basic-block versions is not claimed (code exists only after native execution)",
        "shim leg: see C06 (handler = stub; va_arg decoding represented by the psABI algorithm of ref/sysv_call_ref.h; blocks excluded)",
    ],
}


def check(tier, only=None):
    set_prepare(prepare)
    return run_all("C03", tier, None, "model_checking", META, only=only)
