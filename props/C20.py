"""C20 - MIR-to-C translator (DESIGN.md section 3, C20).

For every module of the corpus (tools/gen_c20.py families + corpus/c20/*.mir):
  1. the REAL translator (mir2c/mir2c.c: MIR_module2c, native driver tools/mir2c_drv.c built from the working tree) runs under
     `timeout 20` and an 8 MB output limit: crash / error exit / hang -> obligation translate.<unit>.<module> (harness/C20/toolfail.c)
  2. the emitted C must be accepted by goto-cc (the front end of the decision procedure) AND by `gcc -std=gnu11 -fsyntax-only`
     (gcc 12: warnings allowed, errors not): rejection -> obligation accept.<unit>.<module>
  3. CBMC runs every exported function with at most one result of the emitted C (compiled unmodified as a separate translation
     unit) against the REAL interpreter on the icode of the same module (tools/mirdump.c) from the same symbolic arguments / buffer
     contents / results of externals and asserts equal results, buffers and external-call logs (harness/C20/c20.c)."""
import concurrent.futures as cf
import glob
import json
import os
import re
import resource
import subprocess
import sys

from vlib import Ob, run_all, REPO, VERIF, run, set_prepare

TOOLS = os.path.join(VERIF, "tools")
FS_FLAGS = ["--max-field-sensitivity-array-size", "160"]  # see props/C04.py
STATS = {"modules": 0, "translated": 0, "accepted": 0}


def build_tools(scratch):
    md = os.path.join(scratch, "mirdump")
    rc, out, _ = run(["gcc", "-O1", "-w", "-DMIR_DIRECT_DISPATCH", "-I" + REPO, "-o", md, os.path.join(TOOLS, "mirdump.c"), "-lm", "-ldl", "-lpthread"], 600, 0)
    if rc != 0:
        raise RuntimeError("mirdump build failed: " + out[-2000:])
    drv = os.path.join(scratch, "mir2c_drv")
    rc, out, _ = run(["gcc", "-O0", "-w", "-I" + REPO, "-o", drv, os.path.join(TOOLS, "mir2c_drv.c"), os.path.join(REPO, "mir2c/mir2c.c"),
                      os.path.join(REPO, "mir.c"), "-lm", "-ldl", "-lpthread"], 600, 0)
    if rc != 0:
        raise RuntimeError("mir2c_drv build failed: " + out[-2000:])
    return md, drv


def text_header(scratch, tag, mir):
    h = os.path.join(scratch, "c20_%s_text.h" % tag)
    if not os.path.exists(h):
        with open(h, "w") as f:
            f.write("static const char c20_mir_text[] =\n")
            for line in open(mir).read().splitlines():
                f.write('  "%s\\n"\n' % line.replace("\\", "\\\\").replace('"', '\\"'))
            f.write(";\n")
    return h


def translate(drv, mir, mod, out):
    def lim():
        os.setsid()
        resource.setrlimit(resource.RLIMIT_FSIZE, (8 << 20, 8 << 20))
    try:
        p = subprocess.run([drv, mir, mod, out], stdout=subprocess.PIPE, stderr=subprocess.PIPE, text=True, errors="replace", timeout=20, preexec_fn=lim)
        return p.returncode, p.stderr.strip()[-300:]
    except subprocess.TimeoutExpired:
        return "timeout", "no result after 20 s"


def prepare_unit(scratch, md, drv, mir, tag):
    d = os.path.join(scratch, "u_" + tag)
    os.makedirs(d, exist_ok=True)
    src = open(mir).read()
    mods = re.findall(r"^\s*([A-Za-z_.$%][\w.$%]*)\s*:\s*module\b", src, re.M)
    obs, ok = [], []
    th = None
    for m in mods:
        STATS["modules"] += 1
        rc, err = translate(drv, mir, m, os.path.join(d, re.sub(r"\W", "_", m) + ".c"))
        if rc == 0:
            ok.append(m)
        else:
            th = th or text_header(scratch, tag, mir)
            obs.append(Ob("translate.%s.%s" % (tag, m), "C20/toolfail.c", defs=["C20_KIND=1", 'C20_TEXT_H="%s"' % th, 'C20_MODULE="%s"' % m], unwind=2, timeout=120,
                          sample="real MIR_module2c on module %s of %s: rc=%s %s" % (m, os.path.basename(mir), rc, err[:160])))
    STATS["translated"] += len(ok)
    gh = [sys.executable, os.path.join(TOOLS, "gen_c20.py"), "harness", mir, d, tag]
    p = subprocess.run(gh + ["--translated", ",".join(ok)], stdout=subprocess.PIPE, stderr=subprocess.PIPE, text=True)
    if p.returncode != 0:
        raise RuntimeError("gen_c20 harness failed on %s: %s" % (mir, p.stderr[-1500:]))
    acc = []
    for m in ok:
        raw = os.path.join(d, re.sub(r"\W", "_", m) + ".c")
        w = os.path.join(d, "wrap_%s.c" % re.sub(r"\W", "_", m))
        r1, o1, _ = run(["goto-cc", "-std=gnu11", "-c", "-o", raw + ".gb", raw], 120, 4)
        r2, o2, _ = run(["gcc", "-std=gnu11", "-fsyntax-only", raw], 120, 4)
        if r1 != 0 or r2 != 0:
            th = th or text_header(scratch, tag, mir)
            why = ("goto-cc: " + " ".join(o1.split())[-220:] if r1 != 0 else "") + (" gcc: " + " | ".join(l for l in o2.splitlines() if "error" in l)[:300] if r2 != 0 else "")
            obs.append(Ob("accept.%s.%s" % (tag, m), "C20/toolfail.c", defs=["C20_KIND=2", 'C20_TEXT_H="%s"' % th, 'C20_MODULE="%s"' % m], unwind=2, timeout=120,
                          sample="emitted C of module %s of %s rejected: %s" % (m, os.path.basename(mir), why)))
        else:
            STATS["accepted"] += 1
        # the equivalence leg uses the wrapper (externals renamed, <alloca.h> pre-included); it is run whenever the wrapper compiles
        r3, o3, _ = run(["goto-cc", "-std=gnu11", "-c", "-o", w + ".gb", w], 120, 4)
        if r3 == 0:
            acc.append(m)
    if acc != ok:
        p = subprocess.run(gh + ["--translated", ",".join(acc)], stdout=subprocess.PIPE, stderr=subprocess.PIPE, text=True)
        if p.returncode != 0:
            raise RuntimeError("gen_c20 harness failed on %s: %s" % (mir, p.stderr[-1500:]))
    with open(os.path.join(d, "dump.h"), "w") as f:
        q = subprocess.run(["timeout", "60", md, mir], stdout=f, stderr=subprocess.PIPE, text=True)
    if q.returncode != 0:
        raise RuntimeError("mirdump failed on %s rc=%s: %s" % (mir, q.returncode, q.stderr[-1500:]))
    dump = open(os.path.join(d, "dump.h")).read()
    meta = json.load(open(os.path.join(d, "c20.json")))
    names = [n for n in re.findall(r'^  \{"([^"]+)", \(func_desc_t\) &h_fd\d+,', dump, re.M)]
    if names != [f[1] for f in sorted(meta["funcs"], key=lambda f: f[2])]:
        raise RuntimeError("%s: function order of the dump differs from the corpus parser" % tag)
    ext = re.findall(r'"([^"]*)"', re.search(r"h_ext_name\[\] = \{(.*?)0\};", dump).group(1))
    with open(os.path.join(d, "extids.h"), "w") as f:
        for i, n in enumerate(ext):
            f.write("#define R_EXT_ID_%s %d\n" % (re.sub(r"[^A-Za-z0-9_]", lambda m: "_x%02x" % ord(m.group(0)), n), i))
    defs = ["MIR_DIRECT_DISPATCH", 'C20_DUMP="dump.h"', 'C20_EXTIDS="extids.h"', "H_ND_MAX=64", "C04_ARENA_BYTES=256"] + (["C04_HAS_EXT"] if ext else [])
    wraps = [os.path.join(d, "wrap_%s.c" % re.sub(r"\W", "_", m)) for m in acc]
    for c in meta["cases"]:
        obs.append(Ob("%s.%s" % (tag, c["name"]), "C20/c20.c", defs=defs, cc=["-I" + d], extra_src=wraps, entry=c["entry"], unwind=40, paths=c["paths"],
                      object_bits=12, checks="functional", timeout=300, flags=FS_FLAGS, native_cc=["-fno-sanitize=pointer-overflow"],
                      sample="%s: %s" % (os.path.basename(mir), c["sample"])))
    return obs


def prepare(tier, scratch):
    md, drv = build_tools(scratch)
    gen = os.path.join(scratch, "c20gen")
    rc, out, _ = run([sys.executable, os.path.join(TOOLS, "gen_c20.py"), "corpus", gen, tier], 120, 0)
    if rc != 0:
        raise RuntimeError("gen_c20 failed: " + out[-2000:])
    units = [(f, "c_" + os.path.basename(f)[:-4]) for f in sorted(glob.glob(os.path.join(VERIF, "corpus/c20/*.mir")))]
    units += [(f, "g_" + os.path.basename(f)[:-4]) for f in sorted(glob.glob(os.path.join(gen, "*.mir")))]
    with cf.ThreadPoolExecutor(4) as ex:
        res = list(ex.map(lambda u: prepare_unit(scratch, md, drv, u[0], re.sub(r"\W", "_", u[1])), units))
    obs = [o for r in res for o in r]
    real = [o for o in obs if o.harness == "C20/c20.c"]
    if real:
        import vlib
        gb, err = vlib.build_goto(real[0], scratch)
        if gb is None:
            raise RuntimeError("goto-cc failed on the C20 harness: " + err[-3000:])
        rc, out, _ = run(["cbmc", gb, "--show-loops"], 300, 8)
        ids = [int(n) for n in re.findall(r"^Loop eval\.(\d+):", out, re.M)]
        for o in real:
            o.unwindset["eval.%d" % max(ids)] = 200
    META["programs"] = len(real)
    META["bounds"]["modules"] = "%d modules: %d translated, %d accepted by goto-cc and gcc" % (STATS["modules"], STATS["translated"], STATS["accepted"])
    return obs


META = {
    "bounds": {"program": "one exported MIR function (with its callees) per obligation; <= 200 executed icode insns per activation, call depth <= 3, <= 4 external calls",
               "operands": "all 64-bit values / all float, double, long double bit patterns for every non-control opcode and every compare-branch; shift "
                           "counts {0, 1, width-1}; mul/div/mod families, overflowing multiplications and float->int on a boundary grid (compile-time "
                           "constants: a divider on both legs is SAT-hard); memory: 64-byte buffer, index in {0,1,2}",
               "translator": "timeout 20 s and 8 MB of output per module"},
    "assumptions": [
        "'accepted by the C compiler' = goto-cc accepts AND gcc 12 -std=gnu11 -fsyntax-only exits 0 (warnings, e.g. int-conversion, are allowed)",
        "the emitted C is compiled unmodified; wrap_<module>.c only #defines each imported name to (*c20_fp_<name>) - what a -D would do - so that "
        "`extern char name[]` + cast-to-prototype calls reach a logging stub; functions under test are exported (everything else is static in the output)",
        "excluded by the property: multi-result functions; excluded by the design: va_*, jcall/jret, laddr/jmpi, property insns, lref data; NaN "
        "immediates cannot be written in MIR text (inf via overflowing decimal literals is in the corpus)",
        "undefined cases assumed away per MIR.md (division by zero, INT_MIN/-1, shift count >= width, float->int out of range); 32-bit (S) results "
        "are observed through uext32 only; C-level undefined behaviour of the emitted C (signed overflow of (int32_t) a + (int32_t) b, shifts of "
        "negative values) is evaluated with CBMC's two's complement semantics, i.e. as gcc -fwrapv would",
        "interpreter leg as in C04 (real eval/call on mirdump's icode, hand-built context, trampoline replaced by h_ff_common, alloca = arena)",
        "long double is CBMC's binary128 on both legs; pointer-typed results / external arguments compared for null-ness only",
        "fp: all bit patterns for fadd/fsub, neg, moves, comparisons, compare-branches and every conversion; fmul/fdiv and all double / long "
        "double arithmetic on a grid of constants (two copies of an IEEE adder on doubles: 60 s CPU, of a multiplier: no verdict in 120 s)",
    ],
}


def check(tier, only=None):
    set_prepare(prepare)
    return run_all("C20", tier, None, "translation_validation", META, only=only)
