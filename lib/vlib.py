"""Core of the solver-based checking framework (DESIGN.md section 2, engine E1 conventions).

An *obligation* is one CBMC query on a harness that #includes real translation units of /repo.
Every obligation is rebuilt (goto-cc) from /repo's working tree on every run.

Verdicts per obligation:
  held          every PROP assertion SUCCESS, every unwinding assertion SUCCESS, every WITNESS refuted
  violated      a PROP/standard-check assertion FAILED *and* the native replay reproduced it
  known         as violated, but matching an entry of /verif/known-findings.txt
  inconclusive  timeout / out of memory / tool error / counterexample that does not replay /
                a witness that is not refuted (vacuous harness) / unwinding assertion failed
"""
import concurrent.futures as cf
import hashlib
import json
import os
import re
import resource
import shutil
import signal
import subprocess
import sys
import tempfile
import time

VERIF = os.path.dirname(os.path.dirname(os.path.abspath(__file__)))
REPO = os.environ.get("VERIF_REPO", "/repo")
GUARD = "MIR_VERIF"
NCPU = int(os.environ.get("VERIF_JOBS", str(os.cpu_count() or 4)))
CC_FLAGS = ["-std=gnu11", "-fsigned-char", "-I" + REPO, "-I" + os.path.join(VERIF, "harness/common"),
            "-I" + os.path.join(VERIF, "ref"), "-D" + GUARD, "-DMIR_PARALLEL_GEN"]

MEMSAFE = ["--bounds-check", "--pointer-check", "--pointer-overflow-check", "--undefined-shift-check",
           "--signed-overflow-check", "--div-by-zero-check", "--pointer-primitive-check"]


class Ob:
    """One obligation."""

    def __init__(self, name, harness, defs=(), unwindset=None, unwind=None, checks="functional",
                 timeout=300, paths=False, flags=(), cc=(), object_bits=None, mem_gb=12, sample=None,
                 extra_src=(), native_cc=(), solver=None, loops=None, entry=None, restrict_fp=()):
        self.name = name
        self.harness = harness          # path relative to /verif/harness or absolute
        self.defs = list(defs)          # -D flags (without -D)
        self.unwindset = dict(unwindset or {})
        self.unwind = unwind
        self.checks = checks            # "functional" (no standard checks) or "memsafe"
        self.timeout = timeout
        self.paths = paths
        self.flags = list(flags)
        self.cc = list(cc)
        self.object_bits = object_bits
        self.mem_gb = mem_gb
        self.sample = sample            # human readable description of the symbolic case
        self.extra_src = list(extra_src)
        self.native_cc = list(native_cc)
        self.solver = solver
        # loops: {"function#k": bound} - k-th loop of the function in SOURCE order (stable under edits
        # elsewhere in the file); resolved to CBMC loop ids with --show-loops after the build
        self.loops = dict(loops or {})
        self.entry = entry              # cbmc --function <entry>; replay build gets -DH_ENTRY=<entry>
        # restrict_fp: ["<function>.function_pointer_call.<k>/<target>,<target>"]: goto-instrument --restrict-function-pointer after the
        # build (the call is replaced by a case split over the named targets plus an ASSERTION that the pointer is one of them); for
        # indirect calls whose candidate set cbmc 6.11's own function-pointer removal gets wrong
        self.restrict_fp = list(restrict_fp)
        # results
        self.verdict = None
        self.detail = ""
        self.props = {}
        self.witnesses = {}
        self.wall = 0.0
        self.solver_s = 0.0
        self.replay_path = None
        self.failed_desc = []
        self.vccs = 0

    def hpath(self):
        return self.harness if os.path.isabs(self.harness) else os.path.join(VERIF, "harness", self.harness)


def _limit(mem_gb):
    def f():
        os.setsid()
        if mem_gb:
            b = int(mem_gb * (1 << 30))
            resource.setrlimit(resource.RLIMIT_AS, (b, b))
    return f


def run(cmd, timeout, mem_gb=12, cwd=None, env=None, stdin=None):
    """Run a command in its own process group with time and memory limits."""
    t0 = time.time()
    p = subprocess.Popen(cmd, stdout=subprocess.PIPE, stderr=subprocess.STDOUT, cwd=cwd, env=env,
                         stdin=subprocess.DEVNULL if stdin is None else stdin,
                         preexec_fn=_limit(mem_gb), text=True, errors="replace")
    try:
        out, _ = p.communicate(timeout=timeout)
        rc = p.returncode
    except subprocess.TimeoutExpired:
        try:
            os.killpg(p.pid, signal.SIGKILL)
        except ProcessLookupError:
            pass
        out, _ = p.communicate()
        rc = "timeout"
    return rc, out, time.time() - t0


RES_RE = re.compile(r"^\[(\S+)\] (.*): (SUCCESS|FAILURE|UNKNOWN|ERROR)$", re.M)
ND_RE = re.compile(r"^\s*h_nd_vals\[(\d+)l*\]=.*\(([01 ]+)\)\s*$", re.M)


def build_goto(ob, scratch):
    key = hashlib.sha1(("%s|%s|%s|%s" % (ob.hpath(), ob.defs, ob.cc, ob.restrict_fp)).encode()).hexdigest()[:16]
    gb = os.path.join(scratch, key + ".gb")
    if os.path.exists(gb):
        return gb, ""
    lock = gb + ".lock"
    # simple in-process dedup is done by the caller (builds are submitted once per key)
    import threading
    tmp = "%s.%d.%d.tmp" % (gb, os.getpid(), threading.get_ident())  # several obligations may build the same key concurrently
    cmd = ["goto-cc"] + CC_FLAGS + ["-D" + d for d in ob.defs] + ob.cc + ["-o", tmp, ob.hpath()] + ob.extra_src
    rc, out, _ = run(cmd, 300, 8)
    if rc != 0:
        return None, "goto-cc failed (%s):\n%s" % (rc, out[-3000:])
    if ob.restrict_fp:
        cmd = ["goto-instrument"] + [a for r in ob.restrict_fp for a in ("--restrict-function-pointer", r)] + [tmp, tmp + ".r"]
        rc, out, _ = run(cmd, 300, 8)
        if rc != 0 or not os.path.exists(tmp + ".r"):
            return None, "goto-instrument --restrict-function-pointer failed (%s):\n%s" % (rc, out[-3000:])
        os.rename(tmp + ".r", tmp)
    try:
        os.rename(tmp, gb)
    except OSError:
        pass
    return gb, ""


_loop_cache = {}
LOOP_RE = re.compile(r"^Loop (\S+):\n\s+file (\S+) line (\d+) function (\S+)", re.M)


def resolve_loops(ob, gb):
    """Map 'function#k' (k-th loop of the function in source order) to CBMC loop ids."""
    if not ob.loops:
        return {}
    if gb not in _loop_cache:
        # entry-selected binaries have no main: without --function everything would be dropped as unused
        rc, out, _ = run(["cbmc", gb, "--show-loops"] + (["--function", ob.entry] if ob.entry else ["--drop-unused-functions"]), 300, 8)
        byfn = {}
        for m in LOOP_RE.finditer(out):
            byfn.setdefault(m.group(4), []).append((int(m.group(3)), int(m.group(1).rsplit(".", 1)[1]), m.group(1)))
        _loop_cache[gb] = byfn
    byfn = _loop_cache[gb]
    res = {}
    for key, bound in ob.loops.items():
        fn, k = key.split("#")
        ls = byfn.get(fn, [])
        # source order: by line; loops on the same line (macro expansions) keep CBMC numbering order
        ls = sorted(ls, key=lambda t: (t[0], t[1]))
        if int(k) < len(ls):
            res[ls[int(k)][2]] = bound
    return res


def cbmc_cmd(ob, gb, extra=()):
    cmd = ["cbmc", gb, "--drop-unused-functions", "--no-malloc-may-fail", "--unwinding-assertions",
           "--no-standard-checks"]
    if ob.checks == "memsafe":
        cmd += MEMSAFE
    elif ob.checks == "memsafe-nopo":  # as memsafe, without flagging the FORMATION of out-of-object pointers (address arithmetic on arbitrary displacements)
        cmd += [f for f in MEMSAFE if f != "--pointer-overflow-check"]
    elif ob.checks == "memsafe-noptr":  # array bounds and arithmetic checks only (harnesses that form arbitrary addresses on purpose)
        cmd += ["--bounds-check", "--undefined-shift-check", "--div-by-zero-check"]
    elif ob.checks == "memsafe-lite":  # in-bounds/valid-object checks only (code that legitimately wraps pointers/ints)
        cmd += ["--bounds-check", "--pointer-check"]
    uw = dict(ob.unwindset)
    uw.update(resolve_loops(ob, gb))
    if uw:
        cmd += ["--unwindset", ",".join("%s:%d" % kv for kv in sorted(uw.items()))]
    if ob.unwind is not None:
        cmd += ["--unwind", str(ob.unwind)]
    if ob.entry:
        cmd += ["--function", ob.entry]
    if ob.paths:
        cmd += ["--paths", "lifo"]
    if ob.object_bits:
        cmd += ["--object-bits", str(ob.object_bits)]
    if ob.solver == "cadical":
        cmd += ["--sat-solver", "cadical"]
    elif ob.solver == "kissat":
        cmd += ["--external-sat-solver", "kissat"]
    elif ob.solver == "cvc5":
        cmd += ["--cvc5", "--slice-formula"]
    elif ob.solver == "z3":
        cmd += ["--z3"]
    cmd += ob.flags
    cmd += list(extra)
    return cmd


def parse_results(out):
    props = {}
    for m in RES_RE.finditer(out):
        props[m.group(1)] = (m.group(2), m.group(3))
    return props


def build_native(ob, scratch):
    key = hashlib.sha1(("%s|%s|%s|%s|native" % (ob.hpath(), ob.defs, ob.cc, ob.entry)).encode()).hexdigest()[:16]
    exe = os.path.join(scratch, key + ".replay")
    if os.path.exists(exe):
        return exe, ""
    import threading
    exe_tmp = "%s.%d.%d.tmp" % (exe, os.getpid(), threading.get_ident())
    cmd = ["gcc", "-g", "-O0", "-w", "-fsanitize=address,undefined", "-fno-sanitize-recover=undefined",
           "-fno-sanitize=shift-base,signed-integer-overflow,alignment,pointer-overflow",  # MIR relies on wrap/arith shifts; see DESIGN
           "-DREPLAY"] + (["-DH_ENTRY=" + ob.entry] if ob.entry else []) + CC_FLAGS + ["-D" + d for d in ob.defs] + ob.cc + ob.native_cc + \
          ["-o", exe_tmp, ob.hpath()] + ob.extra_src + ["-lm", "-ldl", "-lpthread"]
    rc, out, _ = run(cmd, 600, 16)
    if rc != 0:
        return None, "native replay build failed:\n" + out[-3000:]
    try:
        os.rename(exe_tmp, exe)
    except OSError:
        pass
    return exe, ""


def replay(ob, scratch, trace_out, tag):
    """Turn a CBMC trace into a native run of the same harness against the gcc-built real code."""
    vals = {}
    for m in ND_RE.finditer(trace_out):
        vals[int(m.group(1))] = int(m.group(2).replace(" ", ""), 2)
    rdir = os.path.join(VERIF, "replays")
    os.makedirs(rdir, exist_ok=True)
    safe = re.sub(r"[^A-Za-z0-9_.-]", "_", "%s.%s" % (ob.name, tag))
    path = os.path.join(rdir, safe + ".nd")
    with open(path, "w") as f:
        f.write("# prop=%s tier=%s ob=%s harness=%s\n" % (getattr(ob, "prop", ""), getattr(ob, "tier", ""), ob.name, ob.harness))
        for k in sorted(vals):
            f.write("%d %x\n" % (k, vals[k]))
    with open(path + ".trace", "w") as f:
        f.write(trace_out[-200000:])
    exe, err = build_native(ob, scratch)
    if exe is None:
        return "error", err, path
    env = dict(os.environ, ASAN_OPTIONS="detect_leaks=0:abort_on_error=0", UBSAN_OPTIONS="print_stacktrace=1")
    rc, out, _ = run([exe, path], 120, 0, env=env)
    if rc == 0:
        return "noreproduce", out[-2000:], path
    if rc == 77:
        return "assume", out[-2000:], path
    if rc == 2 and "REPLAY: cannot open" in out:
        return "error", out[-2000:], path
    return "reproduced", "rc=%s\n%s" % (rc, out[-3000:]), path


def is_witness(desc):
    return "WITNESS " in desc


def run_ob(ob, scratch):
    t0 = time.time()
    gb, err = build_goto(ob, scratch)
    if gb is None:
        ob.verdict, ob.detail = "inconclusive", err
        ob.wall = time.time() - t0
        return ob
    rc, out, dt = run(cbmc_cmd(ob, gb), ob.timeout, ob.mem_gb)
    ob.solver_s = dt
    m = re.search(r"Generated (\d+) VCC\(s\), (\d+) remaining", out)
    if m:
        ob.vccs = int(m.group(2))
    if rc == "timeout":
        ob.verdict, ob.detail = "inconclusive", "timeout after %ds" % ob.timeout
    elif rc not in (0, 10) and "invariant violation report" in out and not getattr(ob, "_retried", False):
        # CBMC 6.11 crashes in fatal_assertions.cpp when certain standard checks fail; --stop-on-fail uses another
        # verifier: get the first failing property and its trace from there
        import copy
        ob2 = copy.copy(ob)
        ob2.defs = ob.defs + ["H_NO_WITNESS"]   # witnesses always fail; without them the first failure is the real one
        gb2, err2 = build_goto(ob2, scratch)
        rc2, out2, dt2 = run(cbmc_cmd(ob, gb2 or gb, ["--stop-on-fail", "--trace"]), ob.timeout * 2, ob.mem_gb)
        ob.solver_s += dt2
        m2 = re.search(r"Violated property:\n\s+file (\S+) function (\S+) line (\d+) thread \d+\n\s+(.*)\n", out2)
        if m2 and "unwinding assertion" in m2.group(4):
            ob.verdict, ob.detail = "inconclusive", "unwinding bound too small: %s line %s %s" % (m2.group(2), m2.group(3), m2.group(4))
        elif m2 and "WITNESS " not in m2.group(4):
            d = "line %s %s" % (m2.group(3), m2.group(4))
            ob.failed_desc = [d]
            st, msg, path = replay(ob, scratch, out2, re.sub(r"\W+", "_", d)[:40])
            ob.replay_path = path
            if st == "reproduced":
                ob.verdict, ob.detail = "violated", "FAILED: %s; native replay reproduces: %s" % (d, msg[-800:])
            else:
                ob.verdict, ob.detail = "inconclusive", "CBMC counterexample for '%s' did not reproduce natively (%s): %s" % (d, st, msg[-600:])
        else:
            ob.verdict, ob.detail = "inconclusive", "cbmc internal error (invariant violation) and no failing property found with --stop-on-fail"
    elif rc not in (0, 10):
        why = "out of memory" if ("bad_alloc" in out or "Out of memory" in out or rc in (-6, -9, 134, 137)) else "cbmc rc=%s" % rc
        ob.verdict, ob.detail = "inconclusive", why + ": " + out[-1500:]
    else:
        props = parse_results(out)
        ob.props = props
        if ob.paths:
            # --paths prints a result block per path and stops at the first failing path
            pass
        fails = [(k, d) for k, (d, r) in props.items() if r != "SUCCESS" and not is_witness(d)]
        wit = {d: r for k, (d, r) in props.items() if is_witness(d)}
        ob.witnesses = wit
        unw = [(k, d) for k, d in fails if "unwinding assertion" in d or "recursion unwinding" in d]
        real = [(k, d) for k, d in fails if (k, d) not in unw]
        if not props and "VERIFICATION SUCCESSFUL" not in out and "VERIFICATION FAILED" not in out:
            ob.verdict, ob.detail = "inconclusive", "no result parsed: " + out[-1500:]
        elif real:
            ob.failed_desc = [d for k, d in real]
            k, d = real[0]
            # --paths: restrict to the failed property as well (otherwise the traces of the reachability witnesses are mixed in)
            # and stop at the first path that violates it
            extra = ["--trace", "--property", k] if not ob.paths else ["--trace", "--property", k, "--stop-on-fail"]
            # the trace run must not slice: --slice-formula removes the (write-only) nd log h_nd_vals[] from the trace
            rc2, out2, dt2 = run([c for c in cbmc_cmd(ob, gb, extra) if c != "--slice-formula"], ob.timeout * 2, ob.mem_gb)
            ob.solver_s += dt2
            st, msg, path = replay(ob, scratch, out2, re.sub(r"\W+", "_", d)[:40])
            ob.replay_path = path
            if st == "reproduced":
                ob.verdict = "violated"
                ob.detail = "FAILED: %s (%s); native replay reproduces: %s" % (d, k, msg[-800:])
            else:
                ob.verdict = "inconclusive"
                ob.detail = "CBMC counterexample for '%s' did not reproduce natively (%s): %s" % (d, st, msg[-600:])
        elif unw:
            ob.verdict, ob.detail = "inconclusive", "unwinding bound too small: " + "; ".join(k for k, d in unw[:5])
        elif not wit and not ob.paths:
            ob.verdict, ob.detail = "inconclusive", "harness has no reachability witness"
        elif any(r != "FAILURE" for r in wit.values()):
            ob.verdict = "inconclusive"
            ob.detail = "vacuous: witness not reachable: " + ", ".join(d for d, r in wit.items() if r != "FAILURE")
        else:
            ob.verdict = "held"
    ob.wall = time.time() - t0
    return ob


def load_known():
    known, fixed = [], []
    p = os.path.join(VERIF, "known-findings.txt")
    if os.path.exists(p):
        for line in open(p):
            line = line.strip()
            if not line or line.startswith("#"):
                continue
            m = re.match(r"known: property=(\S+) obligation=(\S+) (.*)$", line)
            if m:
                known.append((m.group(1), m.group(2), m.group(3)))
            elif line.startswith("fixed:"):
                fixed.append(line)
    return known, fixed


def functions_encoded(gb):
    """Names and source locations of the functions reachable in a goto binary (for the evidence)."""
    rc, out, _ = run(["goto-instrument", "--drop-unused-functions", gb, gb + ".r.gb"], 120, 8)
    rc, out, _ = run(["goto-instrument", "--list-goto-functions", gb + ".r.gb"], 120, 8)
    names = []
    for line in out.splitlines():
        m = re.match(r"^(\S+) /\* (\S+?)(, body not available)? \*/$", line.strip())
        if m and not m.group(3) and not m.group(1).startswith("__CPROVER"):
            names.append(m.group(1))
    try:
        os.unlink(gb + ".r.gb")
    except OSError:
        pass
    return names


def finish(prop_id, tier, obs, level, meta, t_start, scratch, extra_cov=None):
    """Print the report, write the evidence file, return the exit code."""
    known, _ = load_known()
    seed = int(os.environ.get("VERIF_SEED", "0") or 0)
    violations, inconcl, held, knownhits = [], [], [], []
    for ob in obs:
        if ob.verdict == "held":
            held.append(ob)
        elif ob.verdict == "violated":
            hit = [k for k in known if k[0] == prop_id and k[1] == ob.name]
            if hit:
                knownhits.append((ob, hit[0]))
            else:
                violations.append(ob)
        else:
            inconcl.append(ob)
    for ob, k in knownhits:
        print("KNOWN-FINDING: property=%s %s [obligation %s: %s]" % (prop_id, k[2], ob.name, "; ".join(ob.failed_desc[:2])))
    for ob in inconcl:
        print("INCONCLUSIVE %s/%s: %s" % (prop_id, ob.name, ob.detail[:600].replace("\n", " | ")))
    for ob in violations:
        print("DETAIL %s/%s: %s" % (prop_id, ob.name, ob.detail[:1500]))
        print("VIOLATION property=%s replay=%s" % (prop_id, ob.replay_path))
    # functions encoded: from one goto binary per distinct harness
    fenc = meta.get("functions_encoded")
    if fenc is None:
        fenc = []
        seen = set()
        for ob in obs:
            if ob.hpath() in seen:
                continue
            seen.add(ob.hpath())
            gb, _ = build_goto(ob, scratch)
            if gb:
                for n in functions_encoded(gb):
                    if n not in fenc and not n.startswith(("h_", "nd", "harness", "main", "nondet")):
                        fenc.append(n)
    nontrivial = sum(1 for ob in held if ob.paths or (ob.witnesses and all(r == "FAILURE" for r in ob.witnesses.values())))
    cov = {
        "obligations": len(obs),
        "discharged": len(held),
        "evaluations": sum(max(1, ob.vccs) for ob in obs),
        "distinct_nontrivial": nontrivial,
        "rule": "one obligation = one CBMC query over the real code with symbolic inputs; evaluations = "
                "verification conditions sent to the solver; an obligation counts as non-trivial only when its "
                "reachability witness (assert(0) at the end of the harness) was refuted in the same run",
        "states": max(1, sum(max(1, ob.vccs) for ob in obs)),
        "transitions": max(1, sum(max(1, ob.vccs) for ob in obs)),
        "traces_validated_against_impl": sum(1 for ob in obs if ob.replay_path),
        "samples": [{"obligation": ob.name, "case": ob.sample or "", "verdict": ob.verdict,
                     "solver_s": round(ob.solver_s, 2)} for ob in obs[:12]],
        "inconclusive": [{"obligation": ob.name, "why": ob.detail[:300]} for ob in inconcl],
        "known_findings_hit": [ob.name for ob, k in knownhits],
        "functions_encoded": fenc[:400],
        "bounds": meta.get("bounds", {}),
        "solver": "cbmc 6.11 (MiniSat 2.2.1 unless an obligation names another back end)",
        "solver_time_s": round(sum(ob.solver_s for ob in obs), 1),
        "per_obligation": [{"name": ob.name, "verdict": ob.verdict, "wall_s": round(ob.wall, 1),
                            "vccs": ob.vccs, "witnesses_refuted": sum(1 for r in ob.witnesses.values() if r == "FAILURE")}
                           for ob in obs],
        "exhaustive": False,
    }
    if level == "translation_validation":
        cov["programs"] = meta.get("programs", len(obs))
        cov["disagreements_checked"] = len(violations) + len(knownhits)
    if extra_cov:
        cov.update(extra_cov)
    ev = {"property_id": prop_id, "tier": tier, "seed": seed, "level": level, "coverage": cov,
          "assumptions": meta.get("assumptions", []), "wall_s": round(time.time() - t_start, 1),
          "violations": len(violations)}
    evdir = os.environ.get("VERIF_EVIDENCE_DIR") or os.path.join(VERIF, "evidence")  # mutation runs write elsewhere
    os.makedirs(evdir, exist_ok=True)
    with open(os.path.join(evdir, prop_id + ".json"), "w") as f:
        json.dump(ev, f, indent=1)
    print("SUMMARY property=%s tier=%s obligations=%d held=%d known=%d inconclusive=%d violations=%d wall=%.0fs"
          % (prop_id, tier, len(obs), len(held), len(knownhits), len(inconcl), len(violations), time.time() - t_start))
    if violations:
        return 1
    if inconcl:
        return 2 if os.environ.get("VERIF_STRICT_INCONCLUSIVE", "1") == "1" else 0
    return 0


_prepare = [None]


def set_prepare(fn):
    """Register prepare(tier, scratch) -> [Ob]: generates per-run inputs (corpus, dumps) into scratch."""
    _prepare[0] = fn


def run_all(prop_id, tier, obs, level, meta, extra_cov=None, jobs=None, only=None):
    t0 = time.time()
    scratch = tempfile.mkdtemp(prefix="verif-%s-" % prop_id)
    try:
        if obs is None:
            obs = _prepare[0](tier, scratch)
        if only:
            obs = [o for o in obs if only in o.name]
        for o in obs:
            o.prop, o.tier = prop_id, tier
        # build distinct goto binaries first (in parallel), then run the queries
        keys = {}
        for ob in obs:
            keys.setdefault((ob.hpath(), tuple(ob.defs), tuple(ob.cc)), ob)
        with cf.ThreadPoolExecutor(jobs or NCPU) as ex:
            list(ex.map(lambda o: build_goto(o, scratch), keys.values()))
        with cf.ThreadPoolExecutor(jobs or NCPU) as ex:
            futs = [ex.submit(run_ob, ob, scratch) for ob in obs]
            for f in cf.as_completed(futs):
                ob = f.result()
                if os.environ.get("VERIF_VERBOSE"):
                    print("  %-40s %-12s %.1fs %s" % (ob.name, ob.verdict, ob.wall, ob.detail[:200].replace("\n", " ")), flush=True)
        return finish(prop_id, tier, obs, level, meta, t0, scratch, extra_cov)
    finally:
        shutil.rmtree(scratch, ignore_errors=True)


def replay_file(path, prepare=None, obligations=None):
    """./check <ID> --replay <path>: regenerate the obligation, rebuild the harness natively (ASan/UBSan)
    against /repo's working tree and re-run the recorded inputs.  Exit 1 if the violation reproduces."""
    hdr = open(path).readline()
    m = re.match(r"# prop=(\S*) tier=(\S*) ob=(\S+) harness=(\S+)", hdr.strip())
    if not m:
        print("not a replay file: " + path)
        return 2
    scratch = tempfile.mkdtemp(prefix="verif-replay-")
    try:
        obs = prepare(m.group(2), scratch) if prepare else obligations(m.group(2))
        ob = [o for o in obs if o.name == m.group(3)]
        if not ob:
            print("obligation %s not found" % m.group(3))
            return 2
        exe, err = build_native(ob[0], scratch)
        if exe is None:
            print(err)
            return 2
        env = dict(os.environ, ASAN_OPTIONS="detect_leaks=0", UBSAN_OPTIONS="print_stacktrace=1")
        rc, out, _ = run([exe, path], 120, 0, env=env)
        print(out)
        return 0 if rc == 0 else 1
    finally:
        shutil.rmtree(scratch, ignore_errors=True)
